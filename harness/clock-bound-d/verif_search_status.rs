// Bounded native stand-in / failing-input search for the status part of `extract_bound_from_tracking`
// (C10), on the real `SystemTime` clock.  Woven under cfg(verif_search) as a child module of
// `shm_writer`.  The deciding step is the Kani proof (one harness per wire exponent, `elapsed()`
// stubbed); Kani's counterexamples for those harnesses cannot be executed natively because of the
// stub, so this file supplies the executable failing input.  Never counted as proved.
//
// Input: leap status code, update interval as a wire float (exponent:coefficient), and the age of the
// reference time in milliseconds relative to "now" (negative = in the future).  Because the real clock
// advances between building the report and the call, ages closer than 20 s to a decision boundary are
// not asserted either way.
use super::*;
use chrony_candm::common::{ChronyAddr, ChronyFloat};
use std::time::{Duration, SystemTime};

fn wire(exp: i32, coef: i32) -> ChronyFloat {
    let x: u32 = (((exp as u32) & 0x7f) << 25) | ((coef as u32) & 0x01ff_ffff);
    unsafe { std::mem::transmute::<u32, ChronyFloat>(x) }
}

fn tracking(leap: u16, interval: (i32, i32), age_ms: i64) -> Tracking {
    let now = SystemTime::now();
    let ref_time = if age_ms >= 0 { now - Duration::from_millis(age_ms as u64) } else { now + Duration::from_millis((-age_ms) as u64) };
    Tracking {
        ref_id: 0,
        ip_addr: ChronyAddr::default(),
        stratum: 1,
        leap_status: leap,
        ref_time,
        current_correction: wire(-6, 15_032_385),
        last_offset: wire(0, 0),
        rms_offset: wire(0, 0),
        freq_ppm: wire(0, 0),
        resid_freq_ppm: wire(0, 0),
        skew_ppm: wire(0, 0),
        root_delay: wire(-2, 13_421_772),
        root_dispersion: wire(-4, 10_737_418),
        last_update_interval: wire(interval.0, interval.1),
    }
}

/// 8 * interval in milliseconds (floor), interval = coef * 2^(exp - 25) s
fn eight_intervals_ms(interval: (i32, i32)) -> i128 {
    let sh = interval.0 - 22;
    let c = interval.1 as i128 * 1000;
    if sh >= 0 { c << sh } else { c >> (-sh) }
}

const MARGIN_MS: i128 = 20_000;

fn failing_clauses(leap: u16, interval: (i32, i32), age_ms: i64) -> Vec<&'static str> {
    let mut bad = Vec::new();
    let status = match std::panic::catch_unwind(|| extract_bound_from_tracking(tracking(leap, interval, age_ms)).1) {
        Ok(s) => s,
        Err(_) => {
            bad.push("C10.extract.no_panic");
            return bad;
        }
    };
    let future = (age_ms as i128) <= -MARGIN_MS;
    let past = age_ms >= 0;
    let th = eight_intervals_ms(interval);
    let surely_fresh = past && (age_ms as i128) + MARGIN_MS < (th / 1000) * 1000; // the code truncates the threshold to whole seconds
    let surely_stale = past && (age_ms as i128) > th + MARGIN_MS;
    if status == ChronyClockStatus::Synchronized {
        if leap > 2 {
            bad.push("C10.extract.sync_only_if_leap");
        }
        if future {
            bad.push("C10.extract.sync_only_if_not_future");
        }
        if surely_stale {
            bad.push("C10.extract.sync_only_if_fresh");
        }
    }
    if leap <= 2 && surely_stale && status != ChronyClockStatus::FreeRunning {
        bad.push("C10.extract.stale_is_free");
    }
    if leap == 3 && past && status != ChronyClockStatus::FreeRunning {
        bad.push("C10.extract.leap3_is_free");
    }
    if leap >= 4 && status != ChronyClockStatus::Unknown {
        bad.push("C10.extract.bad_leap_unknown");
    }
    if future && status != ChronyClockStatus::Unknown {
        bad.push("C10.extract.future_unknown");
    }
    if leap <= 2 && surely_fresh && status != ChronyClockStatus::Synchronized {
        bad.push("C10.extract.fresh_is_sync");
    }
    bad
}

fn fmt_input(leap: u16, interval: (i32, i32), age_ms: i64) -> String {
    format!("leap={} interval={}:{} age_ms={}", leap, interval.0, interval.1, age_ms)
}

fn parse_input(s: &str) -> (u16, (i32, i32), i64) {
    let mut kv = std::collections::HashMap::new();
    for tok in s.split_whitespace() {
        if let Some((k, v)) = tok.split_once('=') {
            kv.insert(k.to_string(), v.to_string());
        }
    }
    let (a, b) = kv["interval"].split_once(':').unwrap();
    (kv["leap"].parse().unwrap(), (a.parse().unwrap(), b.parse().unwrap()), kv["age_ms"].parse().unwrap())
}

#[test]
fn verif_search_status() {
    std::panic::set_hook(Box::new(|_| {}));
    let targets: Vec<String> = std::env::var("VERIF_SEARCH_TARGETS").unwrap_or_default()
        .split(',').filter(|s| !s.is_empty()).map(|s| s.to_string()).collect();
    let mut found: std::collections::BTreeMap<&'static str, String> = std::collections::BTreeMap::new();
    let mut report = |leap: u16, interval: (i32, i32), age_ms: i64, found: &mut std::collections::BTreeMap<&'static str, String>| {
        for name in failing_clauses(leap, interval, age_ms) {
            if !targets.is_empty() && !targets.iter().any(|t| t == name) {
                continue;
            }
            if !found.contains_key(name) {
                let line = fmt_input(leap, interval, age_ms);
                println!("VERIF-FOUND obligation={} input: {}", name, line);
                found.insert(name, line);
            }
        }
    };
    if let Ok(line) = std::env::var("VERIF_REPLAY") {
        let (leap, interval, age_ms) = parse_input(&line);
        let s = extract_bound_from_tracking(tracking(leap, interval, age_ms)).1;
        println!("VERIF-REPLAY input: {}  status = {:?}; 8 * interval = {} ms", line, s, eight_intervals_ms(interval));
        report(leap, interval, age_ms, &mut found);
        println!("VERIF-REPLAY failing clauses: {:?}", found.keys().collect::<Vec<_>>());
        return;
    }
    let mut evals: u64 = 0;
    let leaps: [u16; 9] = [0, 1, 2, 3, 4, 5, 255, 256, 65535];
    let coefs: [i32; 4] = [1 << 20, 1 << 23, 3 << 22, (1 << 24) - 1];
    for exp in -10..=30 {
        for &coef in &coefs {
            let th = eight_intervals_ms((exp, coef));
            let th64 = th.min(40 * 365 * 86_400_000) as i64;
            let ages: [i64; 14] = [-86_400_000, -3_600_000, -120_000, -60_000, -25_000,
                                   0, 1, 999, th64 / 2, (th64 - 30_000).max(0), th64 + 30_000, th64 + 120_000, 2 * th64 + 60_000,
                                   40 * 365 * 86_400_000];
            for &leap in &leaps {
                for &age in &ages {
                    evals += 1;
                    report(leap, (exp, coef), age, &mut found);
                }
            }
        }
    }
    println!("VERIF-SEARCH evaluations={} found={}", evals, found.len());
}
