// BOUNDED native stand-in for the contract of `run_clock_error_bound_poller` (C12 / C13): the REAL loop is
// run natively, on the real monotonic clock, real mpsc channels and a real PHC file, against a scripted
// `ChronyOperations`.  The deciding step is the Kani harness `c13_poller_iteration` (all outcomes, ghost
// clock); its counterexamples cannot be executed natively because the environment is stubbed there, so
// this file supplies the executable failing scenario.  Woven under cfg(verif_search) as a child module of
// `chrony_poller`.  Never counted as proved.
//
// A scenario = one loop iteration (two for the `two_polls` clauses):
//   script  per query of the iteration: R = answered, S = silence, r = answered after 300 ms
//           (queries beyond the script are silent); the k-th query's reply is tagged stratum = k
//   grace   what `is_within_grace_period` says before the first query / after the last one returned
//   phc     none | match | differ (configured reference id vs the report's)    file  ok:<value> | missing
use super::*;
use crate::channels::new_channel_web;
use chrony_candm::common::{ChronyAddr, ChronyFloat};
use std::cell::RefCell;
use std::io::Write;
use std::rc::Rc;
use std::time::UNIX_EPOCH;

fn wire0() -> ChronyFloat {
    unsafe { std::mem::transmute::<u32, ChronyFloat>(0) }
}

fn tracking(ref_id: u32, ordinal: u16) -> Tracking {
    Tracking {
        ref_id,
        ip_addr: ChronyAddr::default(),
        stratum: ordinal,
        leap_status: 0,
        ref_time: UNIX_EPOCH,
        current_correction: wire0(),
        last_offset: wire0(),
        rms_offset: wire0(),
        freq_ppm: wire0(),
        resid_freq_ppm: wire0(),
        skew_ppm: wire0(),
        root_delay: wire0(),
        root_dispersion: wire0(),
        last_update_interval: wire0(),
    }
}

fn mono() -> (i64, i64) {
    let t = clock_gettime_safe(CLOCK_MONOTONIC).unwrap();
    (t.tv_sec, t.tv_nsec)
}

#[derive(Default)]
struct Log {
    /// monotonic reading at the start of each query
    query_start: Vec<(i64, i64)>,
    answered: bool,
    grace_calls_before_first_query: u32,
}

struct Scripted {
    script: Vec<char>,
    queries: usize,
    ref_id: u32,
    grace_before: bool,
    grace_after: bool,
    log: Rc<RefCell<Log>>,
    /// rewrite the PHC file with this value when the given query (1-based) is issued
    phc_rewrite: Option<(usize, std::path::PathBuf, i64)>,
}

impl ChronyOperations for Scripted {
    fn get_tracking(&mut self) -> Option<Tracking> {
        self.queries += 1;
        if let Some((q, path, v)) = &self.phc_rewrite {
            if *q == self.queries {
                std::fs::File::create(path).unwrap().write_all(format!("{}\n", v).as_bytes()).unwrap();
            }
        }
        self.log.borrow_mut().query_start.push(mono());
        let c = self.script.get(self.queries - 1).copied().unwrap_or('S');
        if c == 'r' {
            std::thread::sleep(Duration::from_millis(300));
        }
        if c == 'R' || c == 'r' {
            self.log.borrow_mut().answered = true;
            Some(tracking(self.ref_id, self.queries as u16))
        } else {
            None
        }
    }
    fn is_within_grace_period(&self) -> bool {
        if self.queries == 0 {
            self.log.borrow_mut().grace_calls_before_first_query += 1;
            self.grace_before
        } else {
            self.grace_after
        }
    }
}

#[derive(Clone, Debug)]
struct Scenario {
    script: String,
    grace_before: bool,
    grace_after: bool,
    phc: String,  // none | match | differ
    file: String, // ok:<v> | missing
    polls: usize, // 1 | 2 (2: the PHC file changes to value+1 when the second poll queries chronyd)
}

fn fmt_input(s: &Scenario) -> String {
    format!("script={} grace_before={} grace_after={} phc={} file={} polls={}", s.script, s.grace_before as u8, s.grace_after as u8, s.phc, s.file, s.polls)
}

fn parse_input(line: &str) -> Scenario {
    let mut kv = std::collections::HashMap::new();
    for tok in line.split_whitespace() {
        if let Some((k, v)) = tok.split_once('=') {
            kv.insert(k.to_string(), v.to_string());
        }
    }
    Scenario { script: kv["script"].clone(), grace_before: kv["grace_before"] == "1", grace_after: kv["grace_after"] == "1",
               phc: kv["phc"].clone(), file: kv["file"].clone(), polls: kv["polls"].parse().unwrap() }
}

fn le(a: (i64, i64), b: (i64, i64)) -> bool {
    a.0 < b.0 || (a.0 == b.0 && a.1 <= b.1)
}

fn failing_clauses(s: &Scenario, dir: &std::path::Path) -> Vec<&'static str> {
    let mut bad: Vec<&'static str> = Vec::new();
    let path = dir.join("phc_error_bound");
    let _ = std::fs::remove_file(&path);
    let file_value: Option<i64> = s.file.strip_prefix("ok:").map(|v| v.parse().unwrap());
    if let Some(v) = file_value {
        std::fs::File::create(&path).unwrap().write_all(format!("{}\n", v).as_bytes()).unwrap();
    }
    let ref_id: u32 = 0x5048_4330;
    let phc_info = match s.phc.as_str() {
        "match" => Some(PhcInfo { refid: ref_id, sysfs_error_bound_path: path.clone() }),
        "differ" => Some(PhcInfo { refid: ref_id ^ 1, sysfs_error_bound_path: path.clone() }),
        _ => None,
    };
    let (mut mbox, dbox) = new_channel_web(vec![ChannelId::ClockErrorBoundPoller, ChannelId::ShmWriter]);
    let shm_mailbox = mbox.get_mailbox(&ChannelId::ShmWriter).unwrap();
    let my_mbox = mbox.get_mailbox(&ChannelId::ClockErrorBoundPoller).unwrap();
    let ctx = Context { mbox: my_mbox, dbox, channel_id: ChannelId::ClockErrorBoundPoller };
    for _ in 0..s.polls - 1 {
        let _ = ctx.dbox.send(&ChannelId::ClockErrorBoundPoller, Message::ChronyNotRespondingGracePeriod);
    }
    let _ = ctx.dbox.send(&ChannelId::ClockErrorBoundPoller, Message::ThreadAbort);
    let log = Rc::new(RefCell::new(Log::default()));
    let script: Vec<char> = if s.polls == 2 { vec!['R', 'R'] } else { s.script.chars().collect() };
    let poller = Scripted {
        script, queries: 0, ref_id, grace_before: s.grace_before, grace_after: s.grace_after, log: log.clone(),
        phc_rewrite: if s.polls == 2 { file_value.map(|v| (2usize, path.clone(), v + 1)) } else { None },
    };
    let started = mono();
    let l2 = log.clone();
    let res = std::panic::catch_unwind(std::panic::AssertUnwindSafe(|| {
        run_clock_error_bound_poller(ctx, poller, phc_info, Duration::from_millis(1));
    }));
    if res.is_err() {
        bad.push("C13.select.no_panic");
        return bad;
    }
    let msgs: Vec<Message> = shm_mailbox.try_iter().collect();
    let log = l2.borrow();
    if msgs.len() != s.polls {
        bad.push(if s.polls == 2 { "C13.two_polls.one_message_per_poll" } else { "C13.select.one_message_per_poll" });
        return bad;
    }
    if s.polls == 2 {
        // both polls answered by the PHC-referenced report; the file held v in the first poll and v+1 in the second
        if let (Some(v), "match") = (file_value, s.phc.as_str()) {
            for (i, m) in msgs.iter().enumerate() {
                match m {
                    Message::ClockErrorBoundData((_, p, _)) if *p == v + i as i64 => (),
                    _ => bad.push("C13.two_polls.each_report_carries_the_phc_bound_read_in_that_poll"),
                }
            }
        }
        return bad;
    }
    let phc_applies = s.phc == "match" && log.answered;
    let m = &msgs[0];
    if !log.answered {
        let want = if s.grace_after { Message::ChronyNotRespondingGracePeriod } else { Message::ChronyNotResponding };
        if *m != want {
            let want_before = if s.grace_before { Message::ChronyNotRespondingGracePeriod } else { Message::ChronyNotResponding };
            bad.push(if *m == want_before && log.grace_calls_before_first_query > 0 { "C13.select.grace_judged_after_the_query_returned" }
                     else { "C13.select.silence_is_grace_then_unknown_class" });
        }
    } else if phc_applies {
        match (m, file_value) {
            (Message::ClockErrorBoundData((_, p, _)), Some(v)) => {
                if *p != v {
                    bad.push("C13.select.phc_bound_attached_exactly");
                }
            }
            (_, Some(_)) => bad.push("C13.select.report_with_phc_bound_is_data"),
            (m, None) => {
                let want = if s.grace_after { Message::PhcErrorBoundRetrievalFailedGracePeriod } else { Message::PhcErrorBoundRetrievalFailed };
                if *m != want {
                    let want_before = if s.grace_before { Message::PhcErrorBoundRetrievalFailedGracePeriod } else { Message::PhcErrorBoundRetrievalFailed };
                    bad.push(if *m == want_before && log.grace_calls_before_first_query > 0 { "C13.select.grace_judged_after_the_query_returned" }
                             else { "C13.select.phc_failure_is_not_a_measurement" });
                }
            }
        }
    } else {
        match m {
            Message::ClockErrorBoundData((_, p, _)) => {
                if *p != 0 {
                    bad.push("C13.select.phc_term_zero_when_not_the_reference");
                }
            }
            _ => bad.push("C13.select.report_without_phc_is_data"),
        }
    }
    if let Message::ClockErrorBoundData((t, _, as_of)) = m {
        let a = (as_of.tv_sec, as_of.tv_nsec);
        if t.ref_id != ref_id || t.leap_status != 0 {
            bad.push("C13.select.report_forwarded_unchanged");
        }
        // a reading of the monotonic clock taken during this scenario ...
        if !le(started, a) {
            bad.push("C12.poller.as_of_is_a_monotonic_clock_reading");
        }
        // ... before the query this report answers was issued
        let q = t.stratum as usize;
        if q == 0 || q > log.query_start.len() || !le(a, log.query_start[q - 1]) {
            bad.push("C12.poller.as_of_read_before_the_query_it_stamps");
        }
    }
    bad
}

#[test]
fn verif_search_poller() {
    std::panic::set_hook(Box::new(|_| {}));
    let dir = std::env::temp_dir().join(format!("verif_poller_{}", std::process::id()));
    let _ = std::fs::remove_dir_all(&dir);
    std::fs::create_dir_all(&dir).unwrap();
    let mut found: std::collections::BTreeMap<&'static str, String> = std::collections::BTreeMap::new();
    if let Ok(line) = std::env::var("VERIF_REPLAY") {
        let s = parse_input(&line);
        let bad = failing_clauses(&s, &dir);
        for name in &bad {
            println!("VERIF-FOUND obligation={} input: {}", name, line);
        }
        println!("VERIF-REPLAY input: {}  failing clauses: {:?}", line, bad);
        let _ = std::fs::remove_dir_all(&dir);
        return;
    }
    let mut evals = 0u64;
    let mut scenarios: Vec<Scenario> = Vec::new();
    for script in ["R", "S", "SR", "SS", "rS", "rR"] {
        for (gb, ga) in [(false, false), (true, true), (true, false), (false, true)] {
            for (phc, file) in [("none", "missing"), ("match", "ok:12345"), ("match", "ok:0"), ("match", "missing"), ("differ", "ok:12345"), ("differ", "missing")] {
                if script.starts_with('r') && gb != ga {
                    continue; // the slow scripts are about the stamping rule only
                }
                scenarios.push(Scenario { script: script.into(), grace_before: gb, grace_after: ga, phc: phc.into(), file: file.into(), polls: 1 });
            }
        }
    }
    for v in [0i64, 12345, 99_999_999] {
        scenarios.push(Scenario { script: "RR".into(), grace_before: true, grace_after: true, phc: "match".into(), file: format!("ok:{}", v), polls: 2 });
    }
    for s in &scenarios {
        evals += 1;
        for name in failing_clauses(s, &dir) {
            if !found.contains_key(name) {
                let line = fmt_input(s);
                println!("VERIF-FOUND obligation={} input: {}", name, line);
                found.insert(name, line);
            }
        }
    }
    let _ = std::fs::remove_dir_all(&dir);
    println!("VERIF-SEARCH evaluations={} found={}", evals, found.len());
}
