// Kani contract harnesses for clock-bound-d/src/shm_writer.rs: extract_bound_from_tracking,
// ShmUpdater::{new, process_clock_update, process_missing_clock_update, write_clock_error_bound},
// the FSM, and From<u16> for ChronyClockStatus.  Woven as a child module of `shm_writer`.
use super::*;
// (explicit imports: the harness must not depend on which names shm_writer.rs happens to import)
use crate::thread_manager::Context;
use crate::{ChronyClockStatus, Message};
use chrony_candm::common::{ChronyAddr, ChronyFloat};
use chrony_candm::reply::Tracking;
use clock_bound_shm::{ClockErrorBound, ClockStatus, ShmWrite, ShmWriter};
use super::clock_state_fsm::{FSMState, ShmClockState};
use std::path::Path;
use std::time::{Duration, SystemTime, UNIX_EPOCH};

// ---------------------------------------------------------------------------------------------
// environment stubs (assumed contracts on std, listed in the evidence)
// ---------------------------------------------------------------------------------------------
static mut ELAPSED_IS_OK: bool = true;
static mut ELAPSED_SECS: u64 = 0;
static mut ELAPSED_NANOS: u32 = 0;

/// std contract assumed: `SystemTime::elapsed` returns Ok(now - t) when t is not in the future and
/// Err otherwise.  The harness chooses which, and the duration.
fn stub_elapsed(_t: &SystemTime) -> Result<Duration, std::time::SystemTimeError> {
    unsafe {
        if ELAPSED_IS_OK {
            Ok(Duration::new(ELAPSED_SECS, ELAPSED_NANOS))
        } else {
            // a genuine SystemTimeError value obtained from std itself
            match UNIX_EPOCH.duration_since(UNIX_EPOCH + Duration::from_secs(1)) {
                Err(e) => Err(e),
                Ok(_) => unreachable!(),
            }
        }
    }
}

/// Kani over-approximates `f64::powi`; chrony_candm only calls it as `2.0f64.powi(n)` with
/// -89 <= n <= 38.  Exact model of that use (assumed contract: 2.0.powi(n) == 2^n).
fn stub_powi(base: f64, n: i32) -> f64 {
    kani::assert(base == 2.0, "verif.stub_powi_only_for_base_2");
    if n < -1022 || n > 1023 {
        return if n < 0 { 0.0 } else { f64::INFINITY };
    }
    f64::from_bits(((n + 1023) as u64) << 52)
}

// ---------------------------------------------------------------------------------------------
// chrony wire floats: 7-bit signed exponent, 25-bit signed coefficient; value = coef * 2^(exp-25)
// ---------------------------------------------------------------------------------------------
fn wire(exp: i32, coef: i32) -> ChronyFloat {
    let x: u32 = (((exp as u32) & 0x7f) << 25) | ((coef as u32) & 0x01ff_ffff);
    unsafe { std::mem::transmute::<u32, ChronyFloat>(x) }
}

fn any_tracking() -> Tracking {
    Tracking {
        ref_id: kani::any(),
        ip_addr: ChronyAddr::default(),
        stratum: kani::any(),
        leap_status: kani::any(),
        ref_time: UNIX_EPOCH,
        current_correction: wire(0, 0),
        last_offset: wire(0, 0),
        rms_offset: wire(0, 0),
        freq_ppm: wire(0, 0),
        resid_freq_ppm: wire(0, 0),
        skew_ppm: wire(0, 0),
        root_delay: wire(0, 0),
        root_dispersion: wire(0, 0),
        last_update_interval: wire(0, 0),
    }
}

fn any_chrony_status() -> ChronyClockStatus {
    let s: u8 = kani::any();
    kani::assume(s < 3);
    match s {
        0 => ChronyClockStatus::Unknown,
        1 => ChronyClockStatus::Synchronized,
        _ => ChronyClockStatus::FreeRunning,
    }
}

fn to_clock_status(s: ChronyClockStatus) -> ClockStatus {
    match s {
        ChronyClockStatus::Unknown => ClockStatus::Unknown,
        ChronyClockStatus::Synchronized => ClockStatus::Synchronized,
        ChronyClockStatus::FreeRunning => ClockStatus::FreeRunning,
    }
}

// =============================================================================================
// C10 -- only a fresh, well-formed report counts as synchronised
// =============================================================================================
#[kani::proof]
fn c10_from_u16() {
    let v: u16 = kani::any();
    let s = ChronyClockStatus::from(v);
    if v <= 2 {
        kani::assert(s == ChronyClockStatus::Synchronized, "C10.from_u16.sync_codes");
    } else if v == 3 {
        kani::assert(s == ChronyClockStatus::FreeRunning, "C10.from_u16.leap3_is_free");
    } else {
        kani::assert(s == ChronyClockStatus::Unknown, "C10.from_u16.other_unknown");
    }
    kani::cover!(v == 65535, "C10.cover.max");
    kani::cover!(v == 2, "C10.cover.two");
}

/// status part of extract_bound_from_tracking for all leap codes, all non-negative update intervals
/// with the given wire exponent, all reference-time ages below 2^40 s, and a reference time in the
/// future.  One harness per wire exponent in [-10, 30] (interval < 2^29 s): with a constant exponent
/// the power of two and the oracle's shift are constants, which is what makes SAT finish.
fn c10_status_body(exp: i32) {
    let mut t = any_tracking();
    let coef: i32 = kani::any();
    kani::assume(0 <= coef && coef < (1 << 24));
    t.last_update_interval = wire(exp, coef);
    let ok: bool = kani::any();
    let secs: u64 = kani::any();
    let nanos: u32 = kani::any();
    kani::assume(secs < (1u64 << 40) && nanos < 1_000_000_000);
    unsafe {
        ELAPSED_IS_OK = ok;
        ELAPSED_SECS = secs;
        ELAPSED_NANOS = nanos;
    }
    let leap = t.leap_status;
    let (_b, status) = extract_bound_from_tracking(t);

    // independent oracle: 8 * interval = coef * 2^sh seconds (sh = exp - 25 + 3), compared exactly
    // with the age d = secs + nanos/10^9
    let sh = exp - 22;
    let floor_8i: u64 = if sh >= 0 { (coef as u64) << sh } else { (coef as u64) >> (-sh) };
    // fractional part of 8*interval in units of 2^sh seconds (zero when sh >= 0)
    let frac: u64 = if sh >= 0 { 0 } else { (coef as u64) & ((1u64 << (-sh)) - 1) };
    // d <= 8i  <=>  secs < floor  ||  (secs == floor && nanos * 2^-sh <= frac * 10^9)
    let nanos_le_frac = if sh >= 0 { nanos == 0 } else { ((nanos as u64) << (-sh)) <= frac * 1_000_000_000 };
    let within_8_intervals = secs < floor_8i || (secs == floor_8i && nanos_le_frac);
    // the code truncates the threshold to whole seconds
    let within_floor = secs < floor_8i || (secs == floor_8i && nanos == 0);

    if status == ChronyClockStatus::Synchronized {
        kani::assert(leap <= 2, "C10.extract.sync_only_if_leap");
        kani::assert(ok, "C10.extract.sync_only_if_not_future");
        kani::assert(within_8_intervals, "C10.extract.sync_only_if_fresh");
    }
    if leap <= 2 && ok && !within_8_intervals {
        kani::assert(status == ChronyClockStatus::FreeRunning, "C10.extract.stale_is_free");
    }
    if leap == 3 && ok {
        kani::assert(status == ChronyClockStatus::FreeRunning, "C10.extract.leap3_is_free");
    }
    if leap >= 4 {
        kani::assert(status == ChronyClockStatus::Unknown, "C10.extract.bad_leap_unknown");
    }
    if !ok {
        kani::assert(status == ChronyClockStatus::Unknown, "C10.extract.future_unknown");
    }
    if leap <= 2 && ok && within_floor {
        kani::assert(status == ChronyClockStatus::Synchronized, "C10.extract.fresh_is_sync");
    }
    kani::cover!(status == ChronyClockStatus::Synchronized, "C10.cover.sync");
    kani::cover!(leap <= 2 && ok && !within_8_intervals, "C10.cover.stale");
    kani::cover!(!ok, "C10.cover.future");
}

macro_rules! c10_status_harness {
    ($name:ident, $exp:expr) => {
        #[kani::proof]
        #[kani::stub(std::time::SystemTime::elapsed, stub_elapsed)]
        #[kani::stub(f64::powi, stub_powi)]
        fn $name() {
            // "C10.extract.sync_only_if_leap" "C10.extract.sync_only_if_not_future" "C10.extract.sync_only_if_fresh"
            // "C10.extract.stale_is_free" "C10.extract.leap3_is_free" "C10.extract.bad_leap_unknown"
            // "C10.extract.future_unknown" "C10.extract.fresh_is_sync"
            c10_status_body($exp)
        }
    };
}
c10_status_harness!(c10_extract_status_em10, -10);
c10_status_harness!(c10_extract_status_em9, -9);
c10_status_harness!(c10_extract_status_em8, -8);
c10_status_harness!(c10_extract_status_em7, -7);
c10_status_harness!(c10_extract_status_em6, -6);
c10_status_harness!(c10_extract_status_em5, -5);
c10_status_harness!(c10_extract_status_em4, -4);
c10_status_harness!(c10_extract_status_em3, -3);
c10_status_harness!(c10_extract_status_em2, -2);
c10_status_harness!(c10_extract_status_em1, -1);
c10_status_harness!(c10_extract_status_ep0, 0);
c10_status_harness!(c10_extract_status_ep1, 1);
c10_status_harness!(c10_extract_status_ep2, 2);
c10_status_harness!(c10_extract_status_ep3, 3);
c10_status_harness!(c10_extract_status_ep4, 4);
c10_status_harness!(c10_extract_status_ep5, 5);
c10_status_harness!(c10_extract_status_ep6, 6);
c10_status_harness!(c10_extract_status_ep7, 7);
c10_status_harness!(c10_extract_status_ep8, 8);
c10_status_harness!(c10_extract_status_ep9, 9);
c10_status_harness!(c10_extract_status_ep10, 10);
c10_status_harness!(c10_extract_status_ep11, 11);
c10_status_harness!(c10_extract_status_ep12, 12);
c10_status_harness!(c10_extract_status_ep13, 13);
c10_status_harness!(c10_extract_status_ep14, 14);
c10_status_harness!(c10_extract_status_ep15, 15);
c10_status_harness!(c10_extract_status_ep16, 16);
c10_status_harness!(c10_extract_status_ep17, 17);
c10_status_harness!(c10_extract_status_ep18, 18);
c10_status_harness!(c10_extract_status_ep19, 19);
c10_status_harness!(c10_extract_status_ep20, 20);
c10_status_harness!(c10_extract_status_ep21, 21);
c10_status_harness!(c10_extract_status_ep22, 22);
c10_status_harness!(c10_extract_status_ep23, 23);
c10_status_harness!(c10_extract_status_ep24, 24);
c10_status_harness!(c10_extract_status_ep25, 25);
c10_status_harness!(c10_extract_status_ep26, 26);
c10_status_harness!(c10_extract_status_ep27, 27);
c10_status_harness!(c10_extract_status_ep28, 28);
c10_status_harness!(c10_extract_status_ep29, 29);
c10_status_harness!(c10_extract_status_ep30, 30);

// =============================================================================================
// updater step contracts (C08, C09) -- extract_bound_from_tracking replaced by its contract:
// "returns some (bound, status)"; everything else is the real code incl. the Box<dyn FSMState>.
// =============================================================================================
struct GhostWriter {
    count: u32,
    last: ClockErrorBound,
}

impl ShmWrite for GhostWriter {
    fn write(&mut self, ceb: &ClockErrorBound) {
        self.count += 1;
        self.last = *ceb;
    }
}

static mut EXTRACT_BOUND: i64 = 0;
static mut EXTRACT_STATUS: u8 = 0;

fn stub_extract(_t: Tracking) -> (i64, ChronyClockStatus) {
    unsafe {
        (EXTRACT_BOUND, match EXTRACT_STATUS {
            0 => ChronyClockStatus::Unknown,
            1 => ChronyClockStatus::Synchronized,
            _ => ChronyClockStatus::FreeRunning,
        })
    }
}

fn status_code(s: ChronyClockStatus) -> u8 {
    match s {
        ChronyClockStatus::Unknown => 0,
        ChronyClockStatus::Synchronized => 1,
        ChronyClockStatus::FreeRunning => 2,
    }
}

/// Any updater state reachable *after a first synchronised report has been seen* (the situation
/// C08(d) speaks about), produced by the real code only: a fresh updater, one synchronised report
/// with an arbitrary measurement, then one arbitrary further outcome (so that the FSM is in any of
/// its three states and bound/as-of are arbitrary).  No private bookkeeping field is named here.
fn any_updater() -> ShmUpdater<GhostWriter> {
    let w = GhostWriter { count: 0, last: ClockErrorBound::default() };
    let mut u = ShmUpdater::new(w, kani::any());
    u.reserved1 = kani::any();
    let b: i64 = kani::any();
    let p: i64 = kani::any();
    kani::assume(-(1i64 << 61) < b && b < (1i64 << 61) && -(1i64 << 61) < p && p < (1i64 << 61));
    let as_of = libc::timespec { tv_sec: kani::any(), tv_nsec: kani::any() };
    kani::assume(as_of.tv_sec < i64::MAX - 1000);
    unsafe {
        EXTRACT_BOUND = b;
        EXTRACT_STATUS = 1;
    }
    u.process_clock_update(any_tracking(), p, as_of);
    // one more arbitrary outcome
    let k: u8 = kani::any();
    if k == 0 {
        u.process_missing_clock_update(kani::any());
    } else if k == 1 {
        let b2: i64 = kani::any();
        let p2: i64 = kani::any();
        kani::assume(-(1i64 << 61) < b2 && b2 < (1i64 << 61) && -(1i64 << 61) < p2 && p2 < (1i64 << 61));
        let as_of2 = libc::timespec { tv_sec: kani::any(), tv_nsec: kani::any() };
        kani::assume(as_of2.tv_sec < i64::MAX - 1000);
        unsafe {
            EXTRACT_BOUND = b2;
            EXTRACT_STATUS = status_code(any_chrony_status());
        }
        u.process_clock_update(any_tracking(), p2, as_of2);
    }
    u.writer.count = 0;
    u
}

/// Field values a published record must have (independent of ClockErrorBound's own constructor and
/// `==`: the record's private fields are read through the cfg(kani)-only accessor woven into
/// clock-bound-shm).
type Fields = (i64, i64, i64, i64, i64, u32, u32, i32);

fn expected_fields(drift: u32, reserved1: u32, bound: i64, as_of: libc::timespec, st: ClockStatus) -> Fields {
    (as_of.tv_sec, as_of.tv_nsec, as_of.tv_sec + 1000, 0, bound, drift, reserved1, st as i32)
}

fn expected_record(u: &ShmUpdater<GhostWriter>, bound: i64, as_of: libc::timespec, st: ClockStatus) -> Fields {
    expected_fields(u.max_drift_ppb, u.reserved1, bound, as_of, st)
}

fn rec(c: &ClockErrorBound) -> Fields {
    clock_bound_shm::verif_pub::fields(c)
}

#[kani::proof]
fn c08_new_initial_state() {
    let drift: u32 = kani::any();
    let w = GhostWriter { count: 0, last: ClockErrorBound::default() };
    let u = ShmUpdater::new(w, drift);
    kani::assert(u.max_drift_ppb == drift, "C19.new.drift_stored_verbatim");
    kani::assert(u.bound_nsec == 0 && u.as_of.tv_sec == 0 && u.as_of.tv_nsec == 0, "C09.new.placeholder_bound");
    kani::assert(u.shm_clock_state.value() == ClockStatus::Unknown, "C09.new.starts_unknown");
    kani::assert(u.writer.count == 0, "C08.new.no_publication");
    kani::cover!(true, "C08.cover.new_end");
}

#[kani::proof]
fn c08_fsm_table() {
    let from = any_chrony_status();
    let input = any_chrony_status();
    let s0: Box<dyn FSMState> = Box::<ShmClockState>::default();
    kani::assert(s0.value() == ClockStatus::Unknown, "C08.fsm.default_unknown");
    let s1 = s0.apply_chrony(from);
    kani::assert(s1.value() == to_clock_status(from), "C08.fsm.from_unknown");
    let s2 = s1.apply_chrony(input);
    kani::assert(s2.value() == to_clock_status(input), "C08.fsm.table_next_equals_input");
    kani::cover!(from == ChronyClockStatus::Synchronized && input == ChronyClockStatus::FreeRunning, "C08.cover.sync_to_free");
    kani::cover!(from == ChronyClockStatus::FreeRunning && input == ChronyClockStatus::Unknown, "C08.cover.free_to_unknown");
}

#[kani::proof]
#[kani::stub(extract_bound_from_tracking, stub_extract)]
fn c08_update_step() {
    let mut u = any_updater();
    let (b0, a0) = (u.bound_nsec, u.as_of);
    let drift0 = u.max_drift_ppb;
    let res0 = u.reserved1;
    let b: i64 = kani::any();
    let p: i64 = kani::any();
    kani::assume(-(1i64 << 62) < b && b < (1i64 << 62) && -(1i64 << 62) < p && p < (1i64 << 62));
    let s = any_chrony_status();
    unsafe {
        EXTRACT_BOUND = b;
        EXTRACT_STATUS = status_code(s);
    }
    let as_of = libc::timespec { tv_sec: kani::any(), tv_nsec: kani::any() };
    kani::assume(as_of.tv_sec < i64::MAX - 1000);
    u.process_clock_update(any_tracking(), p, as_of);

    kani::assert(u.writer.count == 1, "C08.update.one_publication");
    if s == ChronyClockStatus::Synchronized {
        kani::assert(u.bound_nsec == b + p, "C07.update.phc_added");
        kani::assert(u.as_of.tv_sec == as_of.tv_sec && u.as_of.tv_nsec == as_of.tv_nsec, "C08.update.as_of_advanced_on_sync");
    } else {
        kani::assert(u.bound_nsec == b0, "C08.update.bound_frozen_when_not_sync");
        kani::assert(u.as_of.tv_sec == a0.tv_sec && u.as_of.tv_nsec == a0.tv_nsec, "C08.update.as_of_frozen_when_not_sync");
    }
    kani::assert(u.max_drift_ppb == drift0 && u.reserved1 == res0, "C08.update.config_untouched");
    kani::assert(u.shm_clock_state.value() == to_clock_status(s), "C08.update.fsm_follows_report");
    let exp = expected_record(&u, u.bound_nsec, u.as_of, to_clock_status(s));
    kani::assert(rec(&u.writer.last) == exp, "C08.update.record_fields");
    kani::cover!(s == ChronyClockStatus::Synchronized, "C08.cover.update_sync");
    kani::cover!(s == ChronyClockStatus::FreeRunning, "C08.cover.update_free");
}

#[kani::proof]
#[kani::stub(extract_bound_from_tracking, stub_extract)]
fn c08_missing_step() {
    let mut u = any_updater();
    let (b0, a0) = (u.bound_nsec, u.as_of);
    let drift0 = u.max_drift_ppb;
    let res0 = u.reserved1;
    let grace: bool = kani::any();
    u.process_missing_clock_update(grace);
    kani::assert(u.writer.count == 1, "C08.missing.one_publication");
    kani::assert(u.bound_nsec == b0, "C08.missing.bound_frozen");
    kani::assert(u.as_of.tv_sec == a0.tv_sec && u.as_of.tv_nsec == a0.tv_nsec, "C08.missing.as_of_frozen");
    kani::assert(u.max_drift_ppb == drift0 && u.reserved1 == res0, "C08.missing.config_untouched");
    let st = if grace { ClockStatus::FreeRunning } else { ClockStatus::Unknown };
    kani::assert(u.shm_clock_state.value() == st, "C08.missing.fsm_grace_free_else_unknown");
    let exp = expected_record(&u, b0, a0, st);
    kani::assert(rec(&u.writer.last) == exp, "C08.missing.record_fields");
    kani::cover!(grace, "C08.cover.grace");
    kani::cover!(!grace, "C08.cover.no_grace");
}

// ---- C09: no trust before a first measurement ------------------------------------------------
// Reachable "never synchronised" states are characterised by the code itself: a fresh updater
// (`ShmUpdater::new`) followed by non-synchronised outcomes.  Induction over the number of such
// outcomes: (base + step) `c09_fresh_then_nonsync`: from a fresh updater, after zero or one arbitrary
// non-synchronised outcome, ANOTHER arbitrary non-synchronised outcome publishes an Unknown record
// with the placeholder bound; (closure) `c09_nonsync_absorbing`: two consecutive non-synchronised
// outcomes leave the updater observably in the same state as the second one alone, so every longer
// history collapses to the case already proved.
struct NonSync {
    missing: bool,
    grace: bool,
    status: ChronyClockStatus, // Unknown or FreeRunning (what extract_bound_from_tracking classified)
    bound: i64,
    phc: i64,
    as_of: libc::timespec,
}

fn any_nonsync() -> NonSync {
    let status = if kani::any() { ChronyClockStatus::Unknown } else { ChronyClockStatus::FreeRunning };
    let bound: i64 = kani::any();
    let phc: i64 = kani::any();
    kani::assume(-(1i64 << 62) < bound && bound < (1i64 << 62) && -(1i64 << 62) < phc && phc < (1i64 << 62));
    let as_of = libc::timespec { tv_sec: kani::any(), tv_nsec: kani::any() };
    kani::assume(as_of.tv_sec < i64::MAX - 1000);
    NonSync { missing: kani::any(), grace: kani::any(), status, bound, phc, as_of }
}

fn apply_nonsync(u: &mut ShmUpdater<GhostWriter>, o: &NonSync) {
    if o.missing {
        u.process_missing_clock_update(o.grace);
    } else {
        unsafe {
            EXTRACT_BOUND = o.bound;
            EXTRACT_STATUS = status_code(o.status);
        }
        u.process_clock_update(any_tracking(), o.phc, o.as_of);
    }
}

fn fresh(drift: u32) -> ShmUpdater<GhostWriter> {
    ShmUpdater::new(GhostWriter { count: 0, last: ClockErrorBound::default() }, drift)
}

/// the record a client must see while nothing has been measured: status Unknown
fn untrusted_record(drift: u32) -> Fields {
    (0, 0, 1000, 0, 0, drift, 0, ClockStatus::Unknown as i32)
}

#[kani::proof]
#[kani::stub(extract_bound_from_tracking, stub_extract)]
fn c09_fresh_then_nonsync() {
    let drift: u32 = kani::any();
    let mut u = fresh(drift);
    let o1 = any_nonsync();
    let o2 = any_nonsync();
    let with_first: bool = kani::any();
    if with_first {
        apply_nonsync(&mut u, &o1);
        kani::assert(rec(&u.writer.last) == untrusted_record(drift), "C09.step.no_trust_before_first_sync.first_outcome");
    }
    apply_nonsync(&mut u, &o2);
    kani::assert(rec(&u.writer.last) == untrusted_record(drift), "C09.step.no_trust_before_first_sync.next_outcome");
    kani::assert(u.bound_nsec == 0 && u.as_of.tv_sec == 0 && u.as_of.tv_nsec == 0, "C09.step.placeholder_kept");
    kani::cover!(with_first && !o1.missing && o1.status == ChronyClockStatus::FreeRunning, "C09.cover.free_class_report_first");
    kani::cover!(o2.missing && o2.grace, "C09.cover.grace_outage");
}

#[kani::proof]
#[kani::stub(extract_bound_from_tracking, stub_extract)]
fn c09_nonsync_absorbing() {
    let drift: u32 = kani::any();
    let o1 = any_nonsync();
    let o2 = any_nonsync();
    let mut a = fresh(drift);
    apply_nonsync(&mut a, &o1);
    apply_nonsync(&mut a, &o2);
    let mut b = fresh(drift);
    apply_nonsync(&mut b, &o2);
    kani::assert(a.bound_nsec == b.bound_nsec && a.as_of.tv_sec == b.as_of.tv_sec && a.as_of.tv_nsec == b.as_of.tv_nsec,
                 "C09.absorb.measurement_fields");
    kani::assert(a.max_drift_ppb == b.max_drift_ppb && a.reserved1 == b.reserved1, "C09.absorb.config_fields");
    kani::assert(a.shm_clock_state.value() == b.shm_clock_state.value(), "C09.absorb.fsm_state");
    kani::assert(rec(&a.writer.last) == rec(&b.writer.last), "C09.absorb.published_record");
    // one more outcome is published identically from both (no hidden state shows)
    let o3 = any_nonsync();
    apply_nonsync(&mut a, &o3);
    apply_nonsync(&mut b, &o3);
    kani::assert(rec(&a.writer.last) == rec(&b.writer.last), "C09.absorb.next_publication");
    kani::cover!(true, "C09.cover.absorb_end");
}

// =============================================================================================
// C07 -- published bound = |offset| + dispersion + delay/2, in ns, rounded up
// =============================================================================================
fn c07_bound(exp_o: i32, coef_o: i32, exp_d: i32, coef_d: i32, exp_e: i32, coef_e: i32) -> i64 {
    let mut t = any_tracking();
    t.current_correction = wire(exp_o, coef_o);
    t.root_delay = wire(exp_d, coef_d);
    t.root_dispersion = wire(exp_e, coef_e);
    unsafe {
        ELAPSED_IS_OK = true;
        ELAPSED_SECS = 0;
        ELAPSED_NANOS = 0;
    }
    extract_bound_from_tracking(t).0
}

/// Wire exponents of the "meaningful range" of DESIGN.md (C07): values below 2^13 s with a
/// resolution of at least 2^-60 s.  wire exponent e encodes coef * 2^(e-25).
fn meaningful_exp(e: i32) -> bool {
    -35 <= e && e <= 13
}

fn any_coef_nonneg() -> i32 {
    let c: i32 = kani::any();
    kani::assume(0 <= c && c < (1 << 24));
    c
}

/// never negative for non-negative delay and dispersion, either sign of the offset
#[kani::proof]
#[kani::stub(std::time::SystemTime::elapsed, stub_elapsed)]
#[kani::stub(f64::powi, stub_powi)]
fn c07_nonneg() {
    let (eo, ed, ee): (i32, i32, i32) = (kani::any(), kani::any(), kani::any());
    kani::assume(meaningful_exp(eo) && meaningful_exp(ed) && meaningful_exp(ee));
    let co: i32 = kani::any();
    kani::assume(-(1 << 24) < co && co < (1 << 24));
    let (cd, ce) = (any_coef_nonneg(), any_coef_nonneg());
    let b = c07_bound(eo, co, ed, cd, ee, ce);
    kani::assert(b >= 0, "C07.kani.never_negative");
    kani::cover!(co < 0, "C07.cover.negative_offset");
}


// ---- C08 closure: every reachable post-sync state is (observably) "last sync, then last outcome" ----
// `any_updater()` builds its pre-state as  fresh -> sync -> one arbitrary outcome.  That covers every
// reachable state only if longer histories collapse onto that shape.  This harness checks the
// collapse: after  sync(s) . o1 . o2  the updater is observably the same as after  sync(s') . o2
// (s' = o1 if o1 was synchronised, else s): same fields, same FSM value, same published record, and
// the SAME NEXT PUBLICATION for an arbitrary third outcome o3 -- so any bookkeeping that makes the
// reaction to an outcome depend on older outcomes shows up here.
struct AnyOutcome {
    missing: bool,
    grace: bool,
    status: ChronyClockStatus,
    bound: i64,
    phc: i64,
    as_of: libc::timespec,
}

fn any_outcome() -> AnyOutcome {
    let bound: i64 = kani::any();
    let phc: i64 = kani::any();
    kani::assume(-(1i64 << 61) < bound && bound < (1i64 << 61) && -(1i64 << 61) < phc && phc < (1i64 << 61));
    let as_of = libc::timespec { tv_sec: kani::any(), tv_nsec: kani::any() };
    kani::assume(as_of.tv_sec < i64::MAX - 1000);
    AnyOutcome { missing: kani::any(), grace: kani::any(), status: any_chrony_status(), bound, phc, as_of }
}

fn apply_outcome(u: &mut ShmUpdater<GhostWriter>, o: &AnyOutcome) {
    if o.missing {
        u.process_missing_clock_update(o.grace);
    } else {
        unsafe {
            EXTRACT_BOUND = o.bound;
            EXTRACT_STATUS = status_code(o.status);
        }
        u.process_clock_update(any_tracking(), o.phc, o.as_of);
    }
}

#[kani::proof]
#[kani::stub(extract_bound_from_tracking, stub_extract)]
fn c08_history_collapses() {
    let drift: u32 = kani::any();
    let mut s = any_outcome();
    s.missing = false;
    s.status = ChronyClockStatus::Synchronized;
    let o1 = any_outcome();
    let o2 = any_outcome();
    let o3 = any_outcome();
    let mut a = fresh(drift);
    apply_outcome(&mut a, &s);
    apply_outcome(&mut a, &o1);
    apply_outcome(&mut a, &o2);
    let mut b = fresh(drift);
    let o1_is_sync = !o1.missing && o1.status == ChronyClockStatus::Synchronized;
    apply_outcome(&mut b, if o1_is_sync { &o1 } else { &s });
    apply_outcome(&mut b, &o2);
    kani::assert(a.bound_nsec == b.bound_nsec && a.as_of.tv_sec == b.as_of.tv_sec && a.as_of.tv_nsec == b.as_of.tv_nsec,
                 "C08.collapse.measurement_fields");
    kani::assert(a.shm_clock_state.value() == b.shm_clock_state.value(), "C08.collapse.fsm_state");
    kani::assert(rec(&a.writer.last) == rec(&b.writer.last), "C08.collapse.published_record");
    apply_outcome(&mut a, &o3);
    apply_outcome(&mut b, &o3);
    kani::assert(rec(&a.writer.last) == rec(&b.writer.last), "C08.collapse.next_publication_depends_only_on_last_sync_and_latest_outcomes");
    kani::assert(a.writer.count == 4 && b.writer.count == 3, "C08.collapse.one_publication_per_outcome");
    kani::cover!(o1.missing && !o2.missing && o2.status == ChronyClockStatus::Synchronized && o3.missing && o1.grace == o3.grace, "C08.cover.outage_sync_outage");
}

// =============================================================================================
// C08 dispatch: process_messages maps every message to the documented handler
// =============================================================================================
use crate::channels::DispatchBox;
use crate::ChannelId;
use std::hash::Hash;
use std::sync::mpsc;

static mut DISPATCH_COUNT: u32 = 0;
static mut DISPATCH_LAST: Option<ClockErrorBound> = None;

/// a sink that survives the move of the updater into process_messages
struct StaticWriter;
impl ShmWrite for StaticWriter {
    fn write(&mut self, ceb: &ClockErrorBound) {
        unsafe {
            DISPATCH_COUNT += 1;
            DISPATCH_LAST = Some(*ceb);
        }
    }
}

static mut RECV_CALLS: u32 = 0;
static mut FIRST_MESSAGE_KIND: u8 = 0;
static mut FIRST_PHC: i64 = 0;
static mut FIRST_ASOF: libc::timespec = libc::timespec { tv_sec: 0, tv_nsec: 0 };

fn first_message() -> Message {
    unsafe {
        match FIRST_MESSAGE_KIND {
            0 => Message::ClockErrorBoundData((any_tracking(), FIRST_PHC, FIRST_ASOF)),
            1 => Message::ChronyNotRespondingGracePeriod,
            2 => Message::ChronyNotResponding,
            3 => Message::PhcErrorBoundRetrievalFailedGracePeriod,
            4 => Message::PhcErrorBoundRetrievalFailed,
            5 => Message::ThreadTerminate(ChannelId::ClockErrorBoundPoller),
            6 => Message::ThreadPanic(ChannelId::ClockErrorBoundPoller),
            _ => Message::ThreadAbort,
        }
    }
}

/// assumed contract on std::sync::mpsc: recv yields the messages that were sent, in order; here:
/// one symbolic message, then ThreadAbort
fn stub_recv<T>(_this: &mpsc::Receiver<T>) -> Result<T, mpsc::RecvError> {
    let m = unsafe {
        RECV_CALLS += 1;
        if RECV_CALLS == 1 { first_message() } else { Message::ThreadAbort }
    };
    let t: T = unsafe { std::mem::transmute_copy(&m) };
    std::mem::forget(m);
    Ok(t)
}

fn stub_send<K: Hash + Eq, M>(_this: &DispatchBox<K, M>, _channel_id: &K, message: M) -> Result<(), mpsc::SendError<M>> {
    std::mem::forget(message);
    Ok(())
}

#[kani::proof]
#[kani::unwind(4)]
#[kani::stub(extract_bound_from_tracking, stub_extract)]
#[kani::stub(std::sync::mpsc::Receiver::recv, stub_recv)]
#[kani::stub(crate::channels::DispatchBox::send, stub_send)]
fn c08_dispatch() {
    // an updater that has already stored a first synchronised measurement (so that FreeRunning
    // and Unknown outcomes are distinguishable in what is published)
    let drift: u32 = kani::any();
    let mut u = ShmUpdater::new(StaticWriter, drift);
    let b0: i64 = kani::any();
    kani::assume(0 <= b0 && b0 < (1i64 << 61));
    let a0 = libc::timespec { tv_sec: kani::any(), tv_nsec: kani::any() };
    kani::assume(a0.tv_sec < i64::MAX - 1000);
    unsafe {
        EXTRACT_BOUND = b0;
        EXTRACT_STATUS = 1;
    }
    u.process_clock_update(any_tracking(), 0, a0);
    unsafe {
        DISPATCH_COUNT = 0;
    }
    // the message under test
    let kind: u8 = kani::any();
    kani::assume(kind < 8);
    let b: i64 = kani::any();
    let p: i64 = kani::any();
    kani::assume(0 <= b && b < (1i64 << 61) && 0 <= p && p < (1i64 << 61));
    let s = any_chrony_status();
    let as_of = libc::timespec { tv_sec: kani::any(), tv_nsec: kani::any() };
    kani::assume(as_of.tv_sec < i64::MAX - 1000);
    unsafe {
        FIRST_MESSAGE_KIND = kind;
        FIRST_PHC = p;
        FIRST_ASOF = as_of;
        EXTRACT_BOUND = b;
        EXTRACT_STATUS = status_code(s);
    }
    let (tx, rx) = mpsc::channel::<Message>();
    std::mem::forget(tx);
    let dbox: DispatchBox<ChannelId, Message> = unsafe { std::mem::MaybeUninit::zeroed().assume_init() };
    let ctx = Context { channel_id: ChannelId::ShmWriter, mbox: rx, dbox };
    process_messages(ctx, u);

    let (count, last) = unsafe { (DISPATCH_COUNT, DISPATCH_LAST) };
    let last = last.map(|c| rec(&c));
    let rec = |bound: i64, at: libc::timespec, st: ClockStatus| expected_fields(drift, 0, bound, at, st);
    match kind {
        0 => {
            kani::assert(count == 1, "C08.dispatch.data_publishes_once");
            let exp = if s == ChronyClockStatus::Synchronized { rec(b + p, as_of, ClockStatus::Synchronized) } else { rec(b0, a0, to_clock_status(s)) };
            kani::assert(last == Some(exp), "C08.dispatch.data_goes_to_process_clock_update_with_phc_and_as_of");
        }
        1 | 3 => {
            kani::assert(count == 1, "C08.dispatch.grace_outage_publishes_once");
            kani::assert(last == Some(rec(b0, a0, ClockStatus::FreeRunning)), "C08.dispatch.grace_messages_are_free_running_class");
        }
        2 | 4 => {
            kani::assert(count == 1, "C08.dispatch.outage_publishes_once");
            kani::assert(last == Some(rec(b0, a0, ClockStatus::Unknown)), "C08.dispatch.beyond_grace_messages_are_unknown_class");
        }
        _ => {
            kani::assert(count == 0, "C08.dispatch.control_messages_publish_nothing");
        }
    }
    kani::assert(unsafe { RECV_CALLS } == if kind == 7 { 1 } else { 2 }, "C08.dispatch.stops_on_thread_abort");
    kani::cover!(kind == 0 && s == ChronyClockStatus::Synchronized, "C08.cover.dispatch_sync_data");
    kani::cover!(kind == 3, "C08.cover.dispatch_phc_grace");
    kani::cover!(kind == 7, "C08.cover.dispatch_abort");
}


// =============================================================================================
// C19 plumbing: shm_writer::run(ctx, max_drift_ppb) hands exactly that value to the updater that
// process_messages then runs with, in the initial (never synchronised) state.
// ShmWriter::new (file system) and process_messages (the loop, proved separately) are recorders.
// =============================================================================================
static mut RUN_AREA: [u64; 9] = [0; 9];
static mut RUN_PM_CALLS: u32 = 0;
static mut RUN_DRIFT_SEEN: u32 = 0;
static mut RUN_INITIAL_STATE_OK: bool = false;
static mut RUN_WRITER_NEW_CALLS: u32 = 0;

fn stub_shm_writer_new(_path: &Path) -> std::io::Result<ShmWriter> {
    unsafe {
        RUN_WRITER_NEW_CALLS += 1;
        Ok(clock_bound_shm::verif_pub::writer_over(std::ptr::addr_of_mut!(RUN_AREA).cast()))
    }
}

fn stub_process_messages<W: ShmWrite>(ctx: Context, updater: ShmUpdater<W>) {
    unsafe {
        RUN_PM_CALLS += 1;
        RUN_DRIFT_SEEN = updater.max_drift_ppb;
        RUN_INITIAL_STATE_OK = updater.bound_nsec == 0 && updater.as_of.tv_sec == 0 && updater.as_of.tv_nsec == 0
            && updater.shm_clock_state.value() == ClockStatus::Unknown;
    }
    std::mem::forget(updater);
    std::mem::forget(ctx);
}

#[kani::proof]
#[kani::unwind(4)]
#[kani::stub(clock_bound_shm::ShmWriter::new, stub_shm_writer_new)]
#[kani::stub(process_messages, stub_process_messages)]
#[kani::stub(crate::channels::DispatchBox::send, stub_send)]
fn c19_run_hands_the_drift_rate_to_the_updater() {
    let drift: u32 = kani::any();
    let (tx, rx) = mpsc::channel::<Message>();
    std::mem::forget(tx);
    let dbox: DispatchBox<ChannelId, Message> = unsafe { std::mem::MaybeUninit::zeroed().assume_init() };
    let ctx = Context { channel_id: ChannelId::ShmWriter, mbox: rx, dbox };
    run(ctx, drift);
    unsafe {
        kani::assert(RUN_WRITER_NEW_CALLS == 1 && RUN_PM_CALLS == 1, "C19.run.one_writer_one_message_loop");
        kani::assert(RUN_DRIFT_SEEN == drift, "C19.run.drift_rate_handed_over_verbatim");
        kani::assert(RUN_INITIAL_STATE_OK, "C09.run.updater_starts_never_synchronised");
    }
    kani::cover!(drift == u32::MAX, "C19.cover.run_max");
}

// =============================================================================================
// C13 (configuration side): the reference id given on the command line is packed exactly like
// chronyd packs it (up to four ASCII characters, big endian), so that "the configured reference id
// matches the report's" compares like with like
// =============================================================================================
#[kani::proof]
#[kani::unwind(8)]
fn c13_refid_to_u32_packs_ascii_big_endian() {
    let bytes: [u8; 4] = kani::any();
    let len: usize = kani::any();
    kani::assume(len <= 4);
    kani::assume(bytes[0] < 128 && bytes[1] < 128 && bytes[2] < 128 && bytes[3] < 128);
    let s = unsafe { std::str::from_utf8_unchecked(&bytes[..len]) };
    let r = crate::refid_to_u32(s);
    let mut expect: u32 = 0;
    let mut i = 0;
    while i < len {
        expect = (expect << 8) | bytes[i] as u32;
        i += 1;
    }
    kani::assert(r == Ok(expect), "C13.refid.ascii_packed_big_endian");
    kani::cover!(len == 4 && bytes[0] == b'P', "C13.cover.refid_phc0");
}
