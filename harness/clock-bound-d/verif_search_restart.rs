// BOUNDED stand-in (C09 across daemon restarts): the REAL ShmWriter::new on a real file left behind by
// a previous daemon incarnation, the REAL ShmUpdater::new and the real handlers; what a client reads
// back after each non-synchronised outcome of the restarted daemon must be the Unknown record with
// the placeholder bound, whatever the previous incarnation left in the segment.  The Kani step
// contracts use a harness sink, so anything a restarted daemon might inherit from the old segment is
// outside them; this native check covers it for the stated set of histories.  Never counted as proved.
use super::*;
use chrony_candm::common::ChronyAddr;
use clock_bound_shm::{ClockStatus, ShmReader};
use std::os::unix::ffi::OsStrExt;
use std::time::SystemTime;

fn tracking(leap: u16) -> Tracking {
    Tracking {
        ref_id: 0, ip_addr: ChronyAddr::default(), stratum: 1, leap_status: leap, ref_time: SystemTime::now(),
        current_correction: 0.007.into(), last_offset: 0.0.into(), rms_offset: 0.0.into(), freq_ppm: 0.0.into(),
        resid_freq_ppm: 0.0.into(), skew_ppm: 0.0.into(), root_delay: 0.100.into(), root_dispersion: 0.020.into(),
        last_update_interval: 4.0.into(),
    }
}

/// outcome codes: 0 sync report, 1 unsynchronised report (leap 3), 2 outage within grace, 3 outage beyond grace
fn apply(u: &mut ShmUpdater<ShmWriter>, code: u8, t: i64) {
    match code {
        0 => u.process_clock_update(tracking(1), 0, libc::timespec { tv_sec: t, tv_nsec: 5 }),
        1 => u.process_clock_update(tracking(3), 0, libc::timespec { tv_sec: t, tv_nsec: 5 }),
        2 => u.process_missing_clock_update(true),
        _ => u.process_missing_clock_update(false),
    }
}

#[test]
fn verif_search_restart() {
    let replay = std::env::var("VERIF_REPLAY").ok();
    let dir = std::env::temp_dir().join(format!("verif_restart_{}", std::process::id()));
    let _ = std::fs::remove_dir_all(&dir);
    std::fs::create_dir_all(&dir).unwrap();
    let path = dir.join("shm");
    let cpath = std::ffi::CString::new(path.as_os_str().as_bytes()).unwrap();
    // histories of the FIRST incarnation (what it leaves in the segment), then outcomes of the SECOND
    let first: [&[u8]; 8] = [&[], &[3], &[1], &[2], &[0], &[0, 1], &[0, 2], &[0, 3]];
    let second: [&[u8]; 9] = [&[1], &[2], &[3], &[1, 1], &[1, 2], &[2, 1], &[3, 2], &[2, 2], &[1, 3]];
    let mut cases: Vec<(usize, usize)> = Vec::new();
    for a in 0..first.len() { for b in 0..second.len() { cases.push((a, b)); } }
    if let Some(r) = &replay {
        let mut it = r.split_whitespace().map(|t| t.split_once('=').unwrap().1.parse::<usize>().unwrap());
        cases = vec![(it.next().unwrap(), it.next().unwrap())];
    }
    let expect = ClockErrorBound::new(libc::timespec { tv_sec: 0, tv_nsec: 0 }, libc::timespec { tv_sec: 1000, tv_nsec: 0 }, 0, 5000, 0, ClockStatus::Unknown);
    let mut evals = 0u64;
    let mut found = false;
    for (a, b) in cases {
        let _ = std::fs::remove_file(&path);
        {
            let w = ShmWriter::new(&path).unwrap();
            let mut u = ShmUpdater::new(w, 5000);
            for (i, c) in first[a].iter().enumerate() { apply(&mut u, *c, 100 + i as i64); }
        } // first daemon dies (writer dropped)
        let w = ShmWriter::new(&path).unwrap();
        let mut u = ShmUpdater::new(w, 5000);
        for (i, c) in second[b].iter().enumerate() {
            apply(&mut u, *c, 500 + i as i64);
            evals += 1;
            // a client that attaches now (or was attached all along) reads what was just published
            let got = ShmReader::new(cpath.as_c_str()).ok().and_then(|mut r| r.snapshot().ok().copied());
            if got != Some(expect) && !found {
                found = true;
                println!("VERIF-FOUND obligation=C09.restart.no_trust_before_first_sync_of_the_new_incarnation input: first={} second={}", a, b);
                println!("VERIF-NOTE first incarnation outcomes {:?}, restarted daemon outcomes {:?}, after outcome #{} a client reads {:?}", first[a], second[b], i, got);
            }
        }
    }
    let _ = std::fs::remove_dir_all(&dir);
    if replay.is_some() { println!("VERIF-REPLAY done"); } else { println!("VERIF-SEARCH evaluations={} found={}", evals, found as u32); }
}
