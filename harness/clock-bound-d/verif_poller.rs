// Kani contract harnesses for clock-bound-d/src/chrony_poller.rs: one iteration of
// run_clock_error_bound_poller (message selection, clock-read order) and ClockErrorBoundPoller
// (grace period, start-up, stamping).  Woven as a child module of `chrony_poller`.
use super::*;
// (explicit imports: the harness must not depend on which names chrony_poller.rs happens to import)
use crate::channels::DispatchBox;
use crate::thread_manager::Context;
use crate::{ChannelId, Message, PhcInfo};
use chrony_candm::reply::Tracking;
use clock_bound_shm::common::CLOCK_MONOTONIC;
use std::sync::mpsc;
use std::time::{Duration, Instant};
use chrony_candm::common::{ChronyAddr, ChronyFloat};
use chrony_candm::reply::{Reply, Status};
use std::hash::Hash;
use std::time::UNIX_EPOCH;

// ---------------------------------------------------------------------------------------------
// ghost clock: every clock read / query returns the next tick and is logged
// ---------------------------------------------------------------------------------------------
static mut TICK: i64 = 0;
const LOG: usize = 4;
/// every successful clock read of the iteration: (tick returned as the reading, clock id)
static mut READ_TICKS: [i64; LOG] = [-1; LOG];
static mut READ_IDS: [libc::clockid_t; LOG] = [-1; LOG];
static mut N_READS: usize = 0;
/// every query to chronyd of the iteration: tick at which it was issued; the k-th query's reply is
/// tagged with stratum k (1-based), so a forwarded report names the query it answers
static mut QUERY_TICKS: [i64; LOG] = [-1; LOG];
static mut N_QUERIES: usize = 0;
/// tick of the most recent query (the grace / PHC ordering obligations of C13 refer to it)
static mut QUERY_TICK: i64 = -1;
/// some query of the iteration was answered ("chronyd does not answer" = none was)
static mut ANSWERED: bool = false;
static mut PHC_TICK: i64 = -1;
static mut GRACE_TICK: i64 = -1;
static mut GRACE_CALLS: u32 = 0;
static mut CLOCK_FAILS: bool = false;

fn next_tick() -> i64 {
    unsafe {
        TICK += 1;
        TICK
    }
}

/// assumed contract of clock_gettime_safe: returns the current reading of the requested clock
/// (here: the ghost tick, as whole seconds) or an error
fn ghost_clock_gettime(clock_id: libc::clockid_t) -> Result<libc::timespec, clock_bound_shm::ShmError> {
    unsafe {
        if CLOCK_FAILS {
            return Err(clock_bound_shm::ShmError::SegmentNotInitialized);
        }
        let t = next_tick();
        if N_READS < LOG {
            READ_TICKS[N_READS] = t;
            READ_IDS[N_READS] = clock_id;
        }
        N_READS += 1;
        Ok(libc::timespec { tv_sec: t, tv_nsec: 0 })
    }
}

// ---------------------------------------------------------------------------------------------
// message sink: DispatchBox::send and Receiver::recv_timeout replaced by recorders (assumed
// contract on std::sync::mpsc: delivery of the value that was sent)
// ---------------------------------------------------------------------------------------------
static mut SENT_TO_WRITER: u32 = 0;
static mut SENT_TO_OTHERS: u32 = 0;
static mut SENT_KIND: u8 = 0; // 1 data, 2 NotRespondingGrace, 3 NotResponding, 4 PhcFailGrace, 5 PhcFail, 9 other
static mut SENT_PHC: i64 = 0;
static mut SENT_ASOF_SEC: i64 = -1;
static mut SENT_ASOF_NSEC: i64 = -1;
static mut SENT_LEAP: u16 = 0;
static mut SENT_REFID: u32 = 0;
static mut SENT_STRATUM: u16 = 0;

fn stub_send<K: Hash + Eq, M>(_this: &DispatchBox<K, M>, channel_id: &K, message: M) -> Result<(), mpsc::SendError<M>> {
    // every DispatchBox of this crate is DispatchBox<ChannelId, Message>
    let id: &ChannelId = unsafe { &*(channel_id as *const K as *const ChannelId) };
    let msg: &Message = unsafe { &*(&message as *const M as *const Message) };
    unsafe {
        if *id == ChannelId::ShmWriter {
            SENT_TO_WRITER += 1;
            match msg {
                Message::ClockErrorBoundData((t, phc, as_of)) => {
                    SENT_KIND = 1;
                    SENT_PHC = *phc;
                    SENT_ASOF_SEC = as_of.tv_sec;
                    SENT_ASOF_NSEC = as_of.tv_nsec;
                    SENT_LEAP = t.leap_status;
                    SENT_REFID = t.ref_id;
                    SENT_STRATUM = t.stratum;
                }
                Message::ChronyNotRespondingGracePeriod => SENT_KIND = 2,
                Message::ChronyNotResponding => SENT_KIND = 3,
                Message::PhcErrorBoundRetrievalFailedGracePeriod => SENT_KIND = 4,
                Message::PhcErrorBoundRetrievalFailed => SENT_KIND = 5,
                _ => SENT_KIND = 9,
            }
        } else {
            SENT_TO_OTHERS += 1;
        }
    }
    std::mem::forget(message);
    Ok(())
}

fn stub_recv_timeout<T>(_this: &mpsc::Receiver<T>, _d: Duration) -> Result<T, mpsc::RecvTimeoutError> {
    // the only message type is Message; end the loop after this iteration
    let m = Message::ThreadAbort;
    let t: T = unsafe { std::mem::transmute_copy(&m) };
    std::mem::forget(m);
    Ok(t)
}

// PHC sysfs read: file I/O replaced by its contract Ok(v) | Err
static mut PHC_OK: bool = true;
static mut PHC_VALUE: i64 = 0;
static mut PHC_READS: u32 = 0;

fn stub_phc_read(_p: &std::path::Path) -> Result<i64, std::io::Error> {
    unsafe {
        PHC_READS += 1;
        PHC_TICK = next_tick();
        if PHC_OK {
            Ok(PHC_VALUE)
        } else {
            Err(std::io::Error::from_raw_os_error(5))
        }
    }
}

fn wire0() -> ChronyFloat {
    unsafe { std::mem::transmute::<u32, ChronyFloat>(0) }
}

fn any_tracking() -> Tracking {
    Tracking {
        ref_id: kani::any(),
        ip_addr: ChronyAddr::default(),
        stratum: kani::any(),
        leap_status: kani::any(),
        ref_time: UNIX_EPOCH,
        current_correction: wire0(),
        last_offset: wire0(),
        rms_offset: wire0(),
        freq_ppm: wire0(),
        resid_freq_ppm: wire0(),
        skew_ppm: wire0(),
        root_delay: wire0(),
        root_dispersion: wire0(),
        last_update_interval: wire0(),
    }
}

/// (the i-th logged clock read is a MONOTONIC read whose value is the as-of of the forwarded report,
///  ... and it happened before the q-th query was issued)
fn read_matches(i: usize, q: usize) -> (bool, bool) {
    unsafe {
        let is = i < N_READS && READ_TICKS[i] == SENT_ASOF_SEC && SENT_ASOF_NSEC == 0 && READ_IDS[i] == CLOCK_MONOTONIC;
        let before = is && q >= 1 && q <= LOG && q <= N_QUERIES && READ_TICKS[i] < QUERY_TICKS[q - 1];
        (is, before)
    }
}

struct GhostPoller {
    reply: Option<Tracking>,
    /// what chronyd would answer to any further query of the same iteration (the code as it stands
    /// issues one query per iteration; a retry must not weaken the stamping rule)
    later_reply: Option<Tracking>,
    grace: bool,
    queries: u32,
}

impl ChronyOperations for GhostPoller {
    fn get_tracking(&mut self) -> Option<Tracking> {
        self.queries += 1;
        unsafe {
            QUERY_TICK = next_tick();
            if N_QUERIES < LOG {
                QUERY_TICKS[N_QUERIES] = QUERY_TICK;
            }
            N_QUERIES += 1;
        }
        let mut r = if self.queries == 1 { self.reply.take() } else { self.later_reply.take() };
        if let Some(t) = r.as_mut() {
            unsafe {
                ANSWERED = true;
            }
            t.stratum = if self.queries < 0xffff { self.queries as u16 } else { 0xffff };
        }
        r
    }
    fn is_within_grace_period(&self) -> bool {
        unsafe {
            GRACE_CALLS += 1;
            GRACE_TICK = next_tick();
        }
        self.grace
    }
}

/// A Context whose DispatchBox is never looked into: `DispatchBox::send` is stubbed, and an all-zero
/// HashMap is the empty singleton that its Drop does not free (building a real HashMap needs
/// `getrandom`, which Kani cuts with assume(false) -- that would make everything after it vacuous).
fn empty_context() -> Context {
    let (tx, rx) = mpsc::channel::<Message>();
    std::mem::forget(tx);
    let dbox: DispatchBox<ChannelId, Message> = unsafe { std::mem::MaybeUninit::zeroed().assume_init() };
    Context { channel_id: ChannelId::ClockErrorBoundPoller, mbox: rx, dbox }
}

/// One iteration of the poller loop for every poll outcome: reply / no reply, within / beyond the
/// grace period, PHC configured or not, matching or different reference id, PHC read ok / failed,
/// monotonic clock readable or not.
#[kani::proof]
#[kani::unwind(3)]
#[kani::stub(clock_bound_shm::common::clock_gettime_safe, ghost_clock_gettime)]
#[kani::stub(crate::channels::DispatchBox::send, stub_send)]
#[kani::stub(std::sync::mpsc::Receiver::recv_timeout, stub_recv_timeout)]
#[kani::stub(get_phc_error_bound_from_path, stub_phc_read)]
#[kani::stub(std::time::Instant::now, ghost_instant_now)]
fn c13_poller_iteration() {
    let has_reply: bool = kani::any();
    let t = any_tracking();
    let (t_refid, t_leap) = (t.ref_id, t.leap_status);
    let grace: bool = kani::any();
    let later_has_reply: bool = kani::any();
    let mut t_later = any_tracking();
    // the same chronyd state answers a retry: same reference and leap status
    t_later.ref_id = t_refid;
    t_later.leap_status = t_leap;
    let poller = GhostPoller { reply: if has_reply { Some(t) } else { None }, later_reply: if later_has_reply { Some(t_later) } else { None }, grace, queries: 0 };
    let phc_configured: bool = kani::any();
    let phc_refid: u32 = kani::any();
    let phc_ok: bool = kani::any();
    let phc_value: i64 = kani::any();
    let clock_fails: bool = kani::any();
    unsafe {
        PHC_OK = phc_ok;
        PHC_VALUE = phc_value;
        CLOCK_FAILS = clock_fails;
    }
    let phc_info = if phc_configured {
        Some(PhcInfo { refid: phc_refid, sysfs_error_bound_path: std::path::PathBuf::new() })
    } else {
        None
    };
    run_clock_error_bound_poller(empty_context(), poller, phc_info, Duration::from_millis(1000));

    let (kind, n_writer) = unsafe { (SENT_KIND, SENT_TO_WRITER) };
    if clock_fails {
        kani::assert(n_writer == 0, "C12.poller.no_report_without_an_as_of_reading");
    } else {
        kani::assert(n_writer == 1, "C13.select.one_message_per_poll");
        unsafe {
            // the log above holds LOG entries; an iteration that reads the clock or queries chronyd more
            // often than that is outside what this harness can follow (reported as undecided, not as a violation)
            kani::assert(N_READS <= LOG && N_QUERIES <= LOG, "harness capacity: more than 4 clock reads / queries in one iteration is unsupported");
        }
        // "chronyd does not answer" = no query of this iteration was answered (one query per iteration in
        // the code as it stands, so this is `has_reply`)
        let answered = unsafe { ANSWERED };
        let phc_applies = phc_configured && answered && phc_refid == t_refid;
        // the age of the last good answer is judged when the outcome is known, not before the
        // (blocking, up to 3 s) query: "FreeRunning-class only while the last good answer is < 5 s old"
        if unsafe { GRACE_CALLS } > 0 {
            unsafe {
                kani::assert(GRACE_TICK > QUERY_TICK, "C13.select.grace_judged_after_the_query_returned");
                if PHC_READS > 0 {
                    kani::assert(GRACE_TICK > PHC_TICK, "C13.select.grace_judged_after_the_phc_read_failed");
                }
            }
        }
        if !answered {
            kani::assert(unsafe { GRACE_CALLS } == 1, "C13.select.grace_consulted_once_on_silence");
            kani::assert(kind == if grace { 2 } else { 3 }, "C13.select.silence_is_grace_then_unknown_class");
            kani::assert(unsafe { PHC_READS } == 0, "C13.select.no_phc_read_without_a_report");
        } else if phc_applies {
            kani::assert(unsafe { PHC_READS } == 1, "C13.select.phc_read_exactly_when_reference_matches");
            unsafe { kani::assert(QUERY_TICK < PHC_TICK, "C13.select.phc_read_after_the_report"); }
            if phc_ok {
                kani::assert(kind == 1, "C13.select.report_with_phc_bound_is_data");
                unsafe {
                    kani::assert(SENT_PHC == phc_value, "C13.select.phc_bound_attached_exactly");
                }
            } else {
                kani::assert(kind == if grace { 4 } else { 5 }, "C13.select.phc_failure_is_not_a_measurement");
            }
        } else {
            kani::assert(kind == 1, "C13.select.report_without_phc_is_data");
            kani::assert(unsafe { PHC_READS } == 0, "C13.select.no_phc_read_when_reference_differs");
            unsafe {
                kani::assert(SENT_PHC == 0, "C13.select.phc_term_zero_when_not_the_reference");
            }
        }
        if kind == 1 {
            unsafe {
                // C12: "the as-of instant attached to a chrony report is a monotonic-clock reading taken before
                // the request to chronyd is issued" -- the request being the one this report answers
                let q = SENT_STRATUM as usize; // 1-based ordinal of the query whose reply is forwarded
                let (r0, r1, r2, r3) = (read_matches(0, q), read_matches(1, q), read_matches(2, q), read_matches(3, q));
                let is_reading = r0.0 || r1.0 || r2.0 || r3.0;
                let before_its_query = r0.1 || r1.1 || r2.1 || r3.1;
                kani::assert(is_reading, "C12.poller.as_of_is_a_monotonic_clock_reading");
                kani::assert(before_its_query, "C12.poller.as_of_read_before_the_query_it_stamps");
                kani::assert(SENT_LEAP == t_leap && SENT_REFID == t_refid, "C13.select.report_forwarded_unchanged");
            }
        }
    }
    kani::cover!(!clock_fails && has_reply && phc_configured && phc_refid == t_refid && !phc_ok && grace, "C13.cover.phc_fail_grace");
    kani::cover!(!clock_fails && !has_reply && !grace, "C13.cover.silence_beyond_grace");
    kani::cover!(!clock_fails && has_reply && !phc_configured, "C13.cover.plain_report");
}

// ---- two consecutive iterations: the second poll's message depends on the second poll only ----------
// (the one-iteration contract above covers every poll only if the loop carries no state of its own from
// one poll to the next; this harness checks that for the PHC path, where a cache would be tempting)
static mut RECV_CALLS2: u32 = 0;
static mut PHC2_OK: [bool; 2] = [true, true];
static mut PHC2_VALUE: [i64; 2] = [0, 0];
static mut PHC2_READS: u32 = 0;
static mut SENT2_KIND: [u8; 2] = [0, 0];
static mut SENT2_PHC: [i64; 2] = [0, 0];
static mut SENT2_N: u32 = 0;

fn stub_recv_timeout_two<T>(_this: &mpsc::Receiver<T>, _d: Duration) -> Result<T, mpsc::RecvTimeoutError> {
    unsafe {
        RECV_CALLS2 += 1;
        if RECV_CALLS2 == 1 {
            return Err(mpsc::RecvTimeoutError::Timeout);
        }
    }
    let m = Message::ThreadAbort;
    let t: T = unsafe { std::mem::transmute_copy(&m) };
    std::mem::forget(m);
    Ok(t)
}

fn stub_phc_read_two(_p: &std::path::Path) -> Result<i64, std::io::Error> {
    unsafe {
        let i = if PHC2_READS == 0 { 0 } else { 1 };
        PHC2_READS += 1;
        if PHC2_OK[i] { Ok(PHC2_VALUE[i]) } else { Err(std::io::Error::from_raw_os_error(5)) }
    }
}

fn stub_send_two<K: Hash + Eq, M>(_this: &DispatchBox<K, M>, channel_id: &K, message: M) -> Result<(), mpsc::SendError<M>> {
    let id: &ChannelId = unsafe { &*(channel_id as *const K as *const ChannelId) };
    let msg: &Message = unsafe { &*(&message as *const M as *const Message) };
    unsafe {
        if *id == ChannelId::ShmWriter && SENT2_N < 2 {
            let i = SENT2_N as usize;
            match msg {
                Message::ClockErrorBoundData((_t, phc, _as_of)) => { SENT2_KIND[i] = 1; SENT2_PHC[i] = *phc; }
                Message::ChronyNotRespondingGracePeriod => SENT2_KIND[i] = 2,
                Message::ChronyNotResponding => SENT2_KIND[i] = 3,
                Message::PhcErrorBoundRetrievalFailedGracePeriod => SENT2_KIND[i] = 4,
                Message::PhcErrorBoundRetrievalFailed => SENT2_KIND[i] = 5,
                _ => SENT2_KIND[i] = 9,
            }
            SENT2_N += 1;
        }
    }
    std::mem::forget(message);
    Ok(())
}

struct TwoReplies {
    replies: [Option<Tracking>; 2],
    grace: [bool; 2],
    queries: usize,
}

impl ChronyOperations for TwoReplies {
    fn get_tracking(&mut self) -> Option<Tracking> {
        let i = if self.queries == 0 { 0 } else { 1 };
        self.queries += 1;
        self.replies[i].take()
    }
    fn is_within_grace_period(&self) -> bool {
        self.grace[if self.queries <= 1 { 0 } else { 1 }]
    }
}

#[kani::proof]
#[kani::unwind(4)]
#[kani::stub(clock_bound_shm::common::clock_gettime_safe, ghost_clock_gettime)]
#[kani::stub(crate::channels::DispatchBox::send, stub_send_two)]
#[kani::stub(std::sync::mpsc::Receiver::recv_timeout, stub_recv_timeout_two)]
#[kani::stub(get_phc_error_bound_from_path, stub_phc_read_two)]
#[kani::stub(std::time::Instant::now, ghost_instant_now)]
fn c13_second_poll_does_not_depend_on_the_first() {
    // both polls are answered, by a report whose reference is the configured PHC (same reference time:
    // chronyd has not updated the clock in between); the PHC file reads are independent of each other
    let refid: u32 = kani::any();
    let mut t1 = any_tracking();
    let mut t2 = any_tracking();
    t1.ref_id = refid;
    t2.ref_id = refid;
    let grace: [bool; 2] = [kani::any(), kani::any()];
    let ok: [bool; 2] = [kani::any(), kani::any()];
    let val: [i64; 2] = [kani::any(), kani::any()];
    unsafe {
        PHC2_OK = ok;
        PHC2_VALUE = val;
        CLOCK_FAILS = false;
    }
    let poller = TwoReplies { replies: [Some(t1), Some(t2)], grace, queries: 0 };
    let phc_info = Some(PhcInfo { refid, sysfs_error_bound_path: std::path::PathBuf::new() });
    run_clock_error_bound_poller(empty_context(), poller, phc_info, Duration::from_millis(1000));
    unsafe {
        kani::assert(SENT2_N == 2, "C13.two_polls.one_message_per_poll");
        kani::assert(PHC2_READS == 2, "C13.two_polls.phc_error_bound_read_again_on_every_poll");
        for i in 0..2usize {
            if ok[i] {
                kani::assert(SENT2_KIND[i] == 1 && SENT2_PHC[i] == val[i], "C13.two_polls.each_report_carries_the_phc_bound_read_in_that_poll");
            } else {
                kani::assert(SENT2_KIND[i] == if grace[i] { 4 } else { 5 }, "C13.two_polls.a_failed_read_is_never_papered_over_by_an_earlier_one");
            }
        }
    }
    kani::cover!(ok[0] && !ok[1], "C13.cover.second_read_fails");
    kani::cover!(ok[0] && ok[1] && val[0] != val[1], "C13.cover.value_changes");
}

// =============================================================================================
// ClockErrorBoundPoller: grace period law, start-up, stamping -- with a ghost monotonic clock
// =============================================================================================
// ghost time is kept as (whole seconds, nanoseconds) so that no 64-bit division is needed
static mut NOW_S: u64 = 0;
static mut NOW_N: u32 = 0;

/// std::time::Instant on linux is { tv_sec: i64, tv_nsec: u32 (< 10^9) }; an Instant for a ghost time
/// is manufactured from that representation (assumed: this is a valid Instant; its arithmetic
/// -- checked_sub, duration_since -- is the real std code).
fn instant_at(s: u64, n: u32) -> Instant {
    #[repr(C)]
    struct Raw {
        tv_sec: i64,
        tv_nsec: u32,
    }
    kani::assert(std::mem::size_of::<Instant>() == std::mem::size_of::<Raw>(), "verif.instant_representation_size");
    let raw = Raw { tv_sec: s as i64 + 100, tv_nsec: n };
    unsafe { std::mem::transmute::<Raw, Instant>(raw) }
}

fn ghost_instant_now() -> Instant {
    // time never goes backwards: each reading advances the ghost clock by an arbitrary amount
    let ds: u64 = kani::any();
    let dn: u32 = kani::any();
    kani::assume(ds < (1u64 << 30) && dn < 1_000_000_000);
    unsafe {
        let mut n = NOW_N + dn;
        let mut s = NOW_S + ds;
        if n >= 1_000_000_000 {
            n -= 1_000_000_000;
            s += 1;
        }
        NOW_S = s;
        NOW_N = n;
        instant_at(s, n)
    }
}

fn any_time(max_s: u64) -> (u64, u32) {
    let s: u64 = kani::any();
    let n: u32 = kani::any();
    kani::assume(s < max_s && n < 1_000_000_000);
    (s, n)
}

/// (a - b) < 5 s for a >= b, on (s, ns) pairs
fn younger_than_5s(now: (u64, u32), then: (u64, u32)) -> bool {
    let (mut ds, dn) = (now.0 - then.0, now.1 as i64 - then.1 as i64);
    let dn = if dn < 0 { ds -= 1; dn + 1_000_000_000 } else { dn };
    let _ = dn;
    ds < 5
}

fn le(a: (u64, u32), b: (u64, u32)) -> bool {
    a.0 < b.0 || (a.0 == b.0 && a.1 <= b.1)
}

#[kani::proof]
#[kani::unwind(3)]
#[kani::stub(std::time::Instant::now, ghost_instant_now)]
fn c13_grace_period_law() {
    let t0 = any_time(1u64 << 40);
    unsafe {
        NOW_S = t0.0;
        NOW_N = t0.1;
    }
    let last = any_time(1u64 << 40);
    kani::assume(le(last, t0));
    let p = ClockErrorBoundPoller { last_tracking_data: instant_at(last.0, last.1) };
    let within = p.is_within_grace_period();
    let now = unsafe { (NOW_S, NOW_N) };
    kani::assert(within == younger_than_5s(now, last), "C13.grace.within_iff_last_answer_younger_than_5s");
    kani::cover!(within, "C13.cover.within");
    kani::cover!(now.0 - last.0 == 5 && now.1 == last.1, "C13.cover.exactly_5s");
}

#[kani::proof]
#[kani::unwind(3)]
#[kani::stub(std::time::Instant::now, ghost_instant_now)]
fn c13_starts_outside_grace() {
    let t0 = any_time(1u64 << 40);
    unsafe {
        NOW_S = t0.0;
        NOW_N = t0.1;
    }
    let p = ClockErrorBoundPoller::default();
    // any delay later (ghost_instant_now advances by an arbitrary step)
    kani::assert(!p.is_within_grace_period(), "C13.grace.startup_is_outside_the_grace_period");
    kani::cover!(true, "C13.cover.startup_end");
}

// get_tracking: the UDS query is network I/O, replaced by its contract "any io::Result<Reply>"
static mut QUERY_RESULT: u8 = 0; // 0 io error, 1 tracking reply, 2 other reply

fn stub_query(_req: RequestBody, _opt: ClientOptions) -> std::io::Result<Reply> {
    unsafe {
        match QUERY_RESULT {
            0 => Err(std::io::Error::from_raw_os_error(111)),
            1 => Ok(Reply { status: Status::Success, cmd: 33, sequence: kani::any(), body: ReplyBody::Tracking(any_tracking()) }),
            _ => Ok(Reply { status: Status::Success, cmd: 0, sequence: kani::any(), body: ReplyBody::Null }),
        }
    }
}

#[kani::proof]
#[kani::stub(std::time::Instant::now, ghost_instant_now)]
#[kani::stub(chrony_candm::blocking_query_uds, stub_query)]
fn c13_get_tracking_stamps_only_good_answers() {
    let t0 = any_time(1u64 << 40);
    unsafe {
        NOW_S = t0.0;
        NOW_N = t0.1;
    }
    let last = any_time(1u64 << 40);
    kani::assume(le(last, t0));
    let mut p = ClockErrorBoundPoller { last_tracking_data: instant_at(last.0, last.1) };
    let q: u8 = kani::any();
    kani::assume(q < 3);
    unsafe {
        QUERY_RESULT = q;
    }
    let r = p.get_tracking();
    let now = unsafe { (NOW_S, NOW_N) };
    kani::assert(r.is_some() == (q == 1), "C13.get_tracking.some_iff_tracking_reply");
    if q == 1 {
        kani::assert(p.last_tracking_data == instant_at(now.0, now.1), "C13.get_tracking.good_answer_is_stamped_now");
    } else {
        kani::assert(p.last_tracking_data == instant_at(last.0, last.1), "C13.get_tracking.silence_or_garbage_leaves_the_stamp");
    }
    kani::cover!(q == 1, "C13.cover.good_answer");
    kani::cover!(q == 2, "C13.cover.wrong_reply");
}
