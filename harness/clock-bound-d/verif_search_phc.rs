// BOUNDED stand-in for the contract of `get_phc_error_bound_from_path` (file I/O, replaced by its
// contract `Ok(v) | Err` in the Kani harnesses): the value written in the sysfs file is returned
// exactly.  Woven under cfg(verif_search) as a child module of `chrony_poller`; runs the REAL
// function natively on real files for the stated set of values.  Never counted as proved.
use super::*;
use std::io::Write;

#[test]
fn verif_search_phc() {
    let replay = std::env::var("VERIF_REPLAY").ok();
    let dir = std::env::temp_dir().join(format!("verif_phc_{}", std::process::id()));
    let _ = std::fs::remove_dir_all(&dir);
    std::fs::create_dir_all(&dir).unwrap();
    let path = dir.join("phc_error_bound");
    let mut values: Vec<i64> = vec![0, 1, 9, 10, 12345, 99_999_999, 100_000_000, 123_456_789, 999_999_999, 1_000_000_000,
                                    4_294_967_295, 4_294_967_296, 1 << 40, i64::MAX, -1, -12345, i64::MIN];
    for d in 1..=18u32 {
        values.push(10i64.pow(d) - 1);
        values.push(10i64.pow(d));
        values.push(10i64.pow(d) + 7);
    }
    let mut cases: Vec<(i64, u8)> = Vec::new();
    for v in &values {
        for fmt in 0..4u8 {
            cases.push((*v, fmt));
        }
    }
    if let Some(r) = &replay {
        let mut it = r.split_whitespace().map(|t| t.split_once('=').unwrap().1.parse::<i64>().unwrap());
        cases = vec![(it.next().unwrap(), it.next().unwrap() as u8)];
    }
    let mut found = std::collections::BTreeMap::new();
    let mut evals = 0u64;
    for (v, fmt) in cases {
        let text = match fmt {
            0 => format!("{}\n", v),
            1 => format!("{}", v),
            2 => format!("  {}\n", v),
            _ => format!("{}\n\n", v),
        };
        std::fs::File::create(&path).unwrap().write_all(text.as_bytes()).unwrap();
        evals += 1;
        let got = std::panic::catch_unwind(|| get_phc_error_bound_from_path(&path));
        let ok = matches!(got, Ok(Ok(x)) if x == v);
        if !ok && !found.contains_key("C07.phc.file_value_returned_exactly") {
            println!("VERIF-FOUND obligation=C07.phc.file_value_returned_exactly input: value={} format={}", v, fmt);
            println!("VERIF-NOTE file content {:?} -> {:?}", text, got.map(|r| r.map_err(|e| e.to_string())).map_err(|_| "panic"));
            found.insert("C07.phc.file_value_returned_exactly", ());
        }
    }
    // a missing file is an error, not a value
    let _ = std::fs::remove_file(&path);
    if get_phc_error_bound_from_path(&path).is_ok() {
        println!("VERIF-FOUND obligation=C13.phc.missing_file_is_an_error input: value=0 format=9");
    }
    let _ = std::fs::remove_dir_all(&dir);
    if replay.is_some() {
        println!("VERIF-REPLAY done");
    } else {
        println!("VERIF-SEARCH evaluations={} found={}", evals, found.len());
    }
}
