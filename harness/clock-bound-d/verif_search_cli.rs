// BOUNDED stand-in for the command-line end of C19: the REAL clap parser of `main.rs`, in the RELEASE
// profile (the property speaks about the release build), for every spelling of the option.  The value
// given for the drift rate must reach `Cli::max_drift_rate` - no other option may swallow it - and a
// value outside u32 must be refused.  Woven under cfg(verif_search) as a child module of the binary's
// root (main.rs); run with `cargo test --release --bin clockbound`.  Never counted as proved.
use super::*;

#[test]
fn verif_search_cli() {
    let values: [u32; 9] = [0, 1, 50, 1000, 4_294_967, 4_294_968, 1_000_000_000, u32::MAX - 1, u32::MAX];
    let mut found = false;
    let mut evals = 0u64;
    let mut report = |what: String| {
        if !found {
            found = true;
            println!("VERIF-FOUND obligation=C19.cli.option_value_reaches_the_conversion input: {}", what);
        }
    };
    for v in values {
        let spellings: [Vec<String>; 4] = [
            vec!["clockbound".into(), "--max-drift-rate".into(), v.to_string()],
            vec!["clockbound".into(), format!("--max-drift-rate={}", v)],
            vec!["clockbound".into(), "-m".into(), v.to_string()],
            vec!["clockbound".into(), format!("-m{}", v)],
        ];
        for (k, argv) in spellings.iter().enumerate() {
            evals += 1;
            let parsed = std::panic::catch_unwind(|| Cli::try_parse_from(argv.clone()));
            match parsed {
                Ok(Ok(cli)) => {
                    if cli.max_drift_rate != Some(v) {
                        report(format!("value={} spelling={} (parsed max_drift_rate = {:?})", v, k, cli.max_drift_rate));
                    }
                }
                // refusing to start (error or panic) is allowed by the property; silently dropping is not
                Ok(Err(_)) | Err(_) => (),
            }
        }
    }
    // omitted -> None (1 ppm default is applied by the conversion statement)
    match std::panic::catch_unwind(|| Cli::try_parse_from(vec!["clockbound".to_string()])) {
        Ok(Ok(cli)) if cli.max_drift_rate.is_some() => report("value=none spelling=omitted".into()),
        _ => (),
    }
    // a value that does not fit u32 must be refused by the parser
    if let Ok(Ok(cli)) = std::panic::catch_unwind(|| Cli::try_parse_from(vec!["clockbound".to_string(), "--max-drift-rate".into(), "4294967296".into()])) {
        report(format!("value=4294967296 spelling=0 (accepted as {:?})", cli.max_drift_rate));
    }
    println!("VERIF-SEARCH evaluations={} found={}", evals, found as u32);
}
