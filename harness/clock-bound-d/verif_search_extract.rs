// Native failing-input search / replay for the contract of `extract_bound_from_tracking` (C07).
// Woven under cfg(verif_search) as a child module of `shm_writer`.  Same conventions as
// clock-bound-shm/verif_search_compute.rs; never the deciding step.
use super::*;
use chrony_candm::common::{ChronyAddr, ChronyFloat};
use std::time::SystemTime;

fn wire(exp: i32, coef: i32) -> ChronyFloat {
    let x: u32 = (((exp as u32) & 0x7f) << 25) | ((coef as u32) & 0x01ff_ffff);
    unsafe { std::mem::transmute::<u32, ChronyFloat>(x) }
}

fn tracking(o: (i32, i32), d: (i32, i32), e: (i32, i32)) -> Tracking {
    Tracking {
        ref_id: 0,
        ip_addr: ChronyAddr::default(),
        stratum: 1,
        leap_status: 0,
        ref_time: SystemTime::now(),
        current_correction: wire(o.0, o.1),
        last_offset: wire(0, 0),
        rms_offset: wire(0, 0),
        freq_ppm: wire(0, 0),
        resid_freq_ppm: wire(0, 0),
        skew_ppm: wire(0, 0),
        root_delay: wire(d.0, d.1),
        root_dispersion: wire(e.0, e.1),
        last_update_interval: wire(28, 1 << 20), // 8 s
    }
}

/// value in units of 2^-61 s; exact for wire exponents >= -35
fn units(x: (i32, i32)) -> i128 {
    (x.1 as i128) << (x.0 + 36)
}

fn failing_clauses(o: (i32, i32), d: (i32, i32), e: (i32, i32)) -> Vec<&'static str> {
    let mut bad = Vec::new();
    let b = match std::panic::catch_unwind(|| extract_bound_from_tracking(tracking(o, d, e)).0) {
        Ok(b) => b as i128,
        Err(_) => {
            bad.push("C07.extract.body_obligations");
            return bad;
        }
    };
    let sum = units(o).abs() + units(e) + units(d) / 2;
    let exact = sum * 1_000_000_000;
    let tol = exact >> 50;
    if b < 0 {
        bad.push("C07.extract.never_negative");
    }
    if (b << 61) < exact - tol {
        bad.push("C07.extract.never_smaller_than_the_sum");
    }
    if (b << 61) >= exact + tol + (1i128 << 61) {
        bad.push("C07.extract.rounded_up_by_less_than_1ns");
    }
    if !bad.is_empty() {
        bad.push("C07.extract.formula_shape");
    }
    bad
}

struct Rng(u64);
impl Rng {
    fn next(&mut self) -> u64 {
        self.0 ^= self.0 >> 12;
        self.0 ^= self.0 << 25;
        self.0 ^= self.0 >> 27;
        self.0.wrapping_mul(0x2545F4914F6CDD1D)
    }
}

fn fmt_input(o: (i32, i32), d: (i32, i32), e: (i32, i32)) -> String {
    format!("offset={}:{} delay={}:{} dispersion={}:{}", o.0, o.1, d.0, d.1, e.0, e.1)
}

fn parse_input(s: &str) -> ((i32, i32), (i32, i32), (i32, i32)) {
    let mut kv = std::collections::HashMap::new();
    for tok in s.split_whitespace() {
        if let Some((k, v)) = tok.split_once('=') {
            let (a, b) = v.split_once(':').unwrap();
            kv.insert(k.to_string(), (a.parse::<i32>().unwrap(), b.parse::<i32>().unwrap()));
        }
    }
    (kv["offset"], kv["delay"], kv["dispersion"])
}

#[test]
fn verif_search_extract() {
    std::panic::set_hook(Box::new(|_| {}));
    let targets: Vec<String> = std::env::var("VERIF_SEARCH_TARGETS").unwrap_or_default()
        .split(',').filter(|s| !s.is_empty()).map(|s| s.to_string()).collect();
    let mut found: std::collections::BTreeMap<&'static str, String> = std::collections::BTreeMap::new();
    let mut report = |o, d, e, found: &mut std::collections::BTreeMap<&'static str, String>| {
        for name in failing_clauses(o, d, e) {
            if !targets.is_empty() && !targets.iter().any(|t| t == name) {
                continue;
            }
            if !found.contains_key(name) {
                let line = fmt_input(o, d, e);
                println!("VERIF-FOUND obligation={} input: {}", name, line);
                found.insert(name, line);
            }
        }
    };
    if let Ok(line) = std::env::var("VERIF_REPLAY") {
        let (o, d, e) = parse_input(&line);
        let b = extract_bound_from_tracking(tracking(o, d, e)).0;
        let sum = units(o).abs() + units(e) + units(d) / 2;
        println!("VERIF-REPLAY input: {}  published bound = {} ns; exact (|offset| + dispersion + delay/2) * 10^9 = {} / 2^61 ns = {:.3} ns",
                 line, b, sum * 1_000_000_000, (sum as f64) * 1e9 / (2f64.powi(61)));
        report(o, d, e, &mut found);
        println!("VERIF-REPLAY failing clauses: {:?}", found.keys().collect::<Vec<_>>());
        return;
    }
    let mut evals: u64 = 0;
    // the README example with the offset of either sign: 7 ms offset, 100 ms delay, 20 ms dispersion
    for sign in [1i32, -1] {
        evals += 1;
        report((-6, sign * 15_032_385), (-2, 13_421_772), (-4, 10_737_418), &mut found);
    }
    // boundary values: the README example (+/- offset), zeros, single terms, extreme coefficients
    let coefs: [i32; 9] = [0, 1, 2, 3, 0x5_0000, 0x7f_ffff, 0x80_0000, 0xff_fffe, 0xff_ffff];
    let exps: [i32; 9] = [-35, -34, -20, -7, -1, 0, 5, 12, 13];
    for &eo in &exps { for &co in &coefs { for sign in [1i32, -1] {
        for &ed in &exps { for &cd in &coefs {
            for &ee in &[-35i32, -7, 0, 13] { for &ce in &[0i32, 1, 0x5_0000, 0xff_ffff] {
                evals += 1;
                report((eo, sign * co), (ed, cd), (ee, ce), &mut found);
            } }
        } }
    } } }
    let seed: u64 = std::env::var("VERIF_SEED").ok().and_then(|s| s.parse().ok()).unwrap_or(0);
    let mut r = Rng(seed.wrapping_mul(0x9E3779B97F4A7C15) | 1);
    for _ in 0..2_000_000u32 {
        let ex = |r: &mut Rng| -35 + (r.next() % 49) as i32;
        let cf = |r: &mut Rng| ((r.next() % (1 << 24)) as i32) >> (r.next() % 24);
        let co = if r.next() % 2 == 0 { cf(&mut r) } else { -cf(&mut r) };
        evals += 1;
        report((ex(&mut r), co), (ex(&mut r), cf(&mut r)), (ex(&mut r), cf(&mut r)), &mut found);
    }
    println!("VERIF-SEARCH evaluations={} found={}", evals, found.len());
}
