// Kani harness for `From<ShmError> for ClockBoundError` (clock-bound-client/src/lib.rs).
use crate::*;
use clock_bound_shm::ShmError;

#[kani::proof]
#[kani::unwind(8)]
fn c14_client_error_conversion() {
    let k: u8 = kani::any();
    kani::assume(k < 4);
    let en: i32 = kani::any();
    let origin = std::ffi::CStr::from_bytes_with_nul(b"open\0").unwrap();
    let e = match k {
        0 => ShmError::SyscallError(Errno(en), origin),
        1 => ShmError::SegmentNotInitialized,
        2 => ShmError::SegmentMalformed,
        _ => ShmError::CausalityBreach,
    };
    let c = ClockBoundError::from(e);
    let kind_ok = match k {
        0 => c.kind == ClockBoundErrorKind::Syscall,
        1 => c.kind == ClockBoundErrorKind::SegmentNotInitialized,
        2 => c.kind == ClockBoundErrorKind::SegmentMalformed,
        _ => c.kind == ClockBoundErrorKind::CausalityBreach,
    };
    kani::assert(kind_ok, "C14.client.error_kind_preserved");
    kani::assert(if k == 0 { c.errno == Errno(en) } else { c.errno == Errno(0) }, "C14.client.errno_preserved_only_for_syscall");
    kani::assert(if k == 0 { c.detail.len() == 4 } else { c.detail.is_empty() }, "C14.client.detail_is_the_syscall_name_or_empty");
    kani::cover!(k == 0, "C14.cover.client_syscall");
}
