// Kani harness for `From<ShmError> for ClockBoundError` (clock-bound-client/src/lib.rs).
use crate::*;
// (explicit imports: the harness must not depend on which names lib.rs happens to import)
use clock_bound_shm::ShmError;
use errno::Errno;

#[kani::proof]
#[kani::unwind(8)]
fn c14_client_error_conversion() {
    let k: u8 = kani::any();
    kani::assume(k < 4);
    let en: i32 = kani::any();
    let origin = std::ffi::CStr::from_bytes_with_nul(b"open\0").unwrap();
    let e = match k {
        0 => ShmError::SyscallError(Errno(en), origin),
        1 => ShmError::SegmentNotInitialized,
        2 => ShmError::SegmentMalformed,
        _ => ShmError::CausalityBreach,
    };
    let c = ClockBoundError::from(e);
    let kind_ok = match k {
        0 => c.kind == ClockBoundErrorKind::Syscall,
        1 => c.kind == ClockBoundErrorKind::SegmentNotInitialized,
        2 => c.kind == ClockBoundErrorKind::SegmentMalformed,
        _ => c.kind == ClockBoundErrorKind::CausalityBreach,
    };
    kani::assert(kind_ok, "C14.client.error_kind_preserved");
    kani::assert(if k == 0 { c.errno == Errno(en) } else { c.errno == Errno(0) }, "C14.client.errno_preserved_only_for_syscall");
    kani::assert(if k == 0 { c.detail.len() == 4 } else { c.detail.is_empty() }, "C14.client.detail_is_the_syscall_name_or_empty");
    kani::cover!(k == 0, "C14.cover.client_syscall");
}

// =============================================================================================
// The Rust client is a thin layer over ShmReader::{new, snapshot} and ClockErrorBound::now
// (C17: "the C and the Rust client return the same interval and status ... the same error kind";
// C05/C14: the client wrappers).  The three callees are replaced by recorders / arbitrary results;
// what is proved is the wrapper: which callee is called when, and that results and errors are passed
// through unchanged.  (The same obligations are proved for the C library in clock-bound-ffi.)
// =============================================================================================
use clock_bound_shm::{ClockErrorBound, ShmReader};

static mut AREA: [u64; 9] = [0; 9];
static mut NEW_CALLS: u32 = 0;
static mut SNAPSHOT_CALLS: u32 = 0;
static mut NOW_CALLS: u32 = 0;
static mut NEW_FAILS_WITH: u8 = 0;       // 0 = Ok, 1..=4 error kinds
static mut SNAPSHOT_FAILS_WITH: u8 = 0;
static mut NOW_FAILS_WITH: u8 = 0;
static mut SNAPSHOT_RECORD: Option<ClockErrorBound> = None;
static mut NOW_SEEN_BOUND: i64 = -1;
static mut NOW_RESULT: (i64, i64, i64, i64, u8) = (0, 0, 0, 0, 0);

fn err_of(k: u8) -> ShmError {
    match k {
        1 => ShmError::SyscallError(Errno(13), std::ffi::CStr::from_bytes_with_nul(b"open\0").unwrap()),
        2 => ShmError::SegmentNotInitialized,
        3 => ShmError::SegmentMalformed,
        _ => ShmError::CausalityBreach,
    }
}

fn kind_matches(e: &ClockBoundError, k: u8) -> bool {
    match k {
        1 => e.kind == ClockBoundErrorKind::Syscall && e.errno == Errno(13),
        2 => e.kind == ClockBoundErrorKind::SegmentNotInitialized,
        3 => e.kind == ClockBoundErrorKind::SegmentMalformed,
        _ => e.kind == ClockBoundErrorKind::CausalityBreach,
    }
}

fn stub_reader_new(_path: &std::ffi::CStr) -> Result<ShmReader, ShmError> {
    unsafe {
        NEW_CALLS += 1;
        if NEW_FAILS_WITH != 0 {
            return Err(err_of(NEW_FAILS_WITH));
        }
        Ok(clock_bound_shm::verif_pub::reader_over(std::ptr::addr_of_mut!(AREA).cast()))
    }
}

fn stub_snapshot(_r: &mut ShmReader) -> Result<&ClockErrorBound, ShmError> {
    unsafe {
        SNAPSHOT_CALLS += 1;
        if SNAPSHOT_FAILS_WITH != 0 {
            return Err(err_of(SNAPSHOT_FAILS_WITH));
        }
        let r: &'static Option<ClockErrorBound> = &*std::ptr::addr_of!(SNAPSHOT_RECORD);
        Ok(r.as_ref().unwrap())
    }
}

fn stub_ceb_now(c: &ClockErrorBound) -> Result<(libc_timespec, libc_timespec, ClockStatus), ShmError> {
    unsafe {
        NOW_CALLS += 1;
        NOW_SEEN_BOUND = clock_bound_shm::verif_pub::fields(c).4;
        if NOW_FAILS_WITH != 0 {
            return Err(err_of(NOW_FAILS_WITH));
        }
        let st = match NOW_RESULT.4 { 1 => ClockStatus::Synchronized, 2 => ClockStatus::FreeRunning, _ => ClockStatus::Unknown };
        Ok((libc_timespec { tv_sec: NOW_RESULT.0, tv_nsec: NOW_RESULT.1 }, libc_timespec { tv_sec: NOW_RESULT.2, tv_nsec: NOW_RESULT.3 }, st))
    }
}
use nix::libc::timespec as libc_timespec;

#[kani::proof]
#[kani::unwind(8)]
#[kani::stub(clock_bound_shm::ShmReader::new, stub_reader_new)]
#[kani::stub(clock_bound_shm::ShmReader::snapshot, stub_snapshot)]
#[kani::stub(clock_bound_shm::ClockErrorBound::now, stub_ceb_now)]
fn c17_client_open_is_thin() {
    let fail: u8 = kani::any();
    kani::assume(fail <= 4);
    unsafe {
        NEW_FAILS_WITH = fail;
    }
    let r = ClockBoundClient::new_with_path("/p");
    unsafe {
        kani::assert(NEW_CALLS == 1, "C17.client.open_opens_the_segment_once");
        kani::assert(SNAPSHOT_CALLS == 0 && NOW_CALLS == 0, "C17.client.open_reads_nothing_from_the_segment");
    }
    match r {
        Ok(c) => {
            kani::assert(fail == 0, "C17.client.open_ok_iff_reader_ok");
            let cache = clock_bound_shm::verif_pub::reader_cache(&c.reader);
            kani::assert(cache.0 == 0 && cache.1 == (0, 0, 0, 0, 0, 0, 0, 0), "C17.client.open_starts_with_the_empty_cache");
            std::mem::forget(c);
        }
        Err(e) => {
            kani::assert(fail != 0 && kind_matches(&e, fail), "C17.client.open_error_kind_and_errno_passed_through");
        }
    }
    kani::cover!(fail == 0, "C17.cover.client_open_ok");
    kani::cover!(fail == 1, "C17.cover.client_open_syscall");
}

#[kani::proof]
#[kani::unwind(8)]
#[kani::stub(clock_bound_shm::ShmReader::snapshot, stub_snapshot)]
#[kani::stub(clock_bound_shm::ClockErrorBound::now, stub_ceb_now)]
fn c17_client_now_is_thin() {
    let (sf, nf): (u8, u8) = (kani::any(), kani::any());
    kani::assume(sf <= 4 && nf <= 4);
    let bound: i64 = kani::any();
    let res: (i64, i64, i64, i64, u8) = (kani::any(), kani::any(), kani::any(), kani::any(), kani::any());
    kani::assume(res.4 < 3);
    unsafe {
        SNAPSHOT_FAILS_WITH = sf;
        NOW_FAILS_WITH = nf;
        SNAPSHOT_RECORD = Some(clock_bound_shm::verif_pub::record((1, 2, 3, 4, bound, 5, 6, 1)));
        NOW_RESULT = res;
    }
    let reader = clock_bound_shm::verif_pub::reader_over(unsafe { std::ptr::addr_of_mut!(AREA).cast() });
    let mut c = ClockBoundClient { reader };
    let r = c.now();
    unsafe {
        kani::assert(SNAPSHOT_CALLS == 1, "C17.client.now_takes_exactly_one_snapshot");
        if sf == 0 {
            kani::assert(NOW_CALLS == 1 && NOW_SEEN_BOUND == bound, "C17.client.now_evaluates_the_snapshot_it_took");
        } else {
            kani::assert(NOW_CALLS == 0, "C17.client.now_no_interval_without_a_snapshot");
        }
    }
    match r {
        Ok(out) => {
            kani::assert(sf == 0 && nf == 0, "C17.client.now_ok_iff_both_steps_ok");
            kani::assert(out.earliest.tv_sec() == res.0 && out.earliest.tv_nsec() == res.1
                         && out.latest.tv_sec() == res.2 && out.latest.tv_nsec() == res.3, "C17.client.now_interval_passed_through");
            kani::assert(out.clock_status as i32 == res.4 as i32, "C17.client.now_status_passed_through");
        }
        Err(e) => {
            let k = if sf != 0 { sf } else { nf };
            kani::assert(k != 0 && kind_matches(&e, k), "C17.client.now_error_kind_and_errno_passed_through");
        }
    }
    std::mem::forget(c);
    kani::cover!(sf == 0 && nf == 0, "C17.cover.client_now_ok");
    kani::cover!(sf == 0 && nf == 4, "C17.cover.client_now_causality");
}
