// The C library is a thin layer over ShmReader::{new, snapshot} and ClockErrorBound::now -- the same
// three callees as the Rust client (clock-bound-client/verif_client.rs), replaced here by the same
// recorders.  Proved: which callee is called when; results, status and errors passed through.
use crate::*;
use clock_bound_shm::{ClockErrorBound, ClockStatus, ShmError, ShmReader};

static mut AREA: [u64; 9] = [0; 9];
static mut NEW_CALLS: u32 = 0;
static mut SNAPSHOT_CALLS: u32 = 0;
static mut NOW_CALLS: u32 = 0;
static mut NEW_FAILS_WITH: u8 = 0;
static mut SNAPSHOT_FAILS_WITH: u8 = 0;
static mut NOW_FAILS_WITH: u8 = 0;
static mut SNAPSHOT_RECORD: Option<ClockErrorBound> = None;
static mut NOW_SEEN_BOUND: i64 = -1;
static mut NOW_RESULT: (i64, i64, i64, i64, u8) = (0, 0, 0, 0, 0);

fn err_of(k: u8) -> ShmError {
    match k {
        1 => ShmError::SyscallError(errno::Errno(13), std::ffi::CStr::from_bytes_with_nul(b"open\0").unwrap()),
        2 => ShmError::SegmentNotInitialized,
        3 => ShmError::SegmentMalformed,
        _ => ShmError::CausalityBreach,
    }
}

fn stub_reader_new(_path: &std::ffi::CStr) -> Result<ShmReader, ShmError> {
    unsafe {
        NEW_CALLS += 1;
        if NEW_FAILS_WITH != 0 {
            return Err(err_of(NEW_FAILS_WITH));
        }
        Ok(clock_bound_shm::verif_pub::reader_over(std::ptr::addr_of_mut!(AREA).cast()))
    }
}

fn stub_snapshot(_r: &mut ShmReader) -> Result<&ClockErrorBound, ShmError> {
    unsafe {
        SNAPSHOT_CALLS += 1;
        if SNAPSHOT_FAILS_WITH != 0 {
            return Err(err_of(SNAPSHOT_FAILS_WITH));
        }
        let r: &'static Option<ClockErrorBound> = &*std::ptr::addr_of!(SNAPSHOT_RECORD);
        Ok(r.as_ref().unwrap())
    }
}

fn stub_ceb_now(c: &ClockErrorBound) -> Result<(libc::timespec, libc::timespec, ClockStatus), ShmError> {
    unsafe {
        NOW_CALLS += 1;
        NOW_SEEN_BOUND = clock_bound_shm::verif_pub::fields(c).4;
        if NOW_FAILS_WITH != 0 {
            return Err(err_of(NOW_FAILS_WITH));
        }
        let st = match NOW_RESULT.4 { 1 => ClockStatus::Synchronized, 2 => ClockStatus::FreeRunning, _ => ClockStatus::Unknown };
        Ok((libc::timespec { tv_sec: NOW_RESULT.0, tv_nsec: NOW_RESULT.1 }, libc::timespec { tv_sec: NOW_RESULT.2, tv_nsec: NOW_RESULT.3 }, st))
    }
}

#[kani::proof]
#[kani::unwind(8)]
#[kani::stub(clock_bound_shm::ShmReader::new, stub_reader_new)]
#[kani::stub(clock_bound_shm::ShmReader::snapshot, stub_snapshot)]
#[kani::stub(clock_bound_shm::ClockErrorBound::now, stub_ceb_now)]
fn c17_ffi_open_is_thin() {
    let fail: u8 = kani::any();
    kani::assume(fail <= 4);
    unsafe {
        NEW_FAILS_WITH = fail;
    }
    let path = std::ffi::CStr::from_bytes_with_nul(b"/p\0").unwrap();
    let mut err = clockbound_err::default();
    let with_err: bool = kani::any();
    let ctx = unsafe { clockbound_open(path.as_ptr(), if with_err { &mut err } else { core::ptr::null_mut() }) };
    unsafe {
        kani::assert(NEW_CALLS == 1, "C17.ffi.open_opens_the_segment_once");
        kani::assert(SNAPSHOT_CALLS == 0 && NOW_CALLS == 0, "C17.ffi.open_reads_nothing_from_the_segment");
    }
    kani::assert(ctx.is_null() == (fail != 0), "C17.ffi.open_null_iff_reader_error");
    if fail == 0 {
        let cache = clock_bound_shm::verif_pub::reader_cache(unsafe { &(*ctx).reader });
        kani::assert(cache.0 == 0 && cache.1 == (0, 0, 0, 0, 0, 0, 0, 0), "C17.ffi.open_starts_with_the_empty_cache");
        kani::assert(err.kind as i32 == 0, "C17.ffi.open_ok_leaves_err_untouched");
    } else if with_err {
        kani::assert(err.kind as i32 == fail as i32, "C17.ffi.open_error_kind_passed_through");
        kani::assert(if fail == 1 { err.errno == 13 } else { err.errno == 0 }, "C17.ffi.open_errno_passed_through");
    }
    kani::cover!(fail == 0, "C17.cover.ffi_open_ok");
    kani::cover!(fail == 1 && with_err, "C17.cover.ffi_open_syscall");
}

#[kani::proof]
#[kani::unwind(8)]
#[kani::stub(clock_bound_shm::ShmReader::snapshot, stub_snapshot)]
#[kani::stub(clock_bound_shm::ClockErrorBound::now, stub_ceb_now)]
fn c17_ffi_now_is_thin() {
    let (sf, nf): (u8, u8) = (kani::any(), kani::any());
    kani::assume(sf <= 4 && nf <= 4);
    let bound: i64 = kani::any();
    let res: (i64, i64, i64, i64, u8) = (kani::any(), kani::any(), kani::any(), kani::any(), kani::any());
    kani::assume(res.4 < 3);
    unsafe {
        SNAPSHOT_FAILS_WITH = sf;
        NOW_FAILS_WITH = nf;
        SNAPSHOT_RECORD = Some(clock_bound_shm::verif_pub::record((1, 2, 3, 4, bound, 5, 6, 1)));
        NOW_RESULT = res;
    }
    let reader = clock_bound_shm::verif_pub::reader_over(unsafe { std::ptr::addr_of_mut!(AREA).cast() });
    // whatever a PREVIOUS call left in the context (the stored error is only a return slot): the outcome
    // of this call must not depend on it
    let prev: u8 = kani::any();
    kani::assume(prev <= 4);
    let prev_err = if prev == 0 { clockbound_err::default() } else { clockbound_err::from(err_of(prev)) };
    let mut ctx = clockbound_ctx { err: prev_err, reader };
    let mut out = clockbound_now_result {
        earliest: libc::timespec { tv_sec: -7, tv_nsec: -7 },
        latest: libc::timespec { tv_sec: -7, tv_nsec: -7 },
        clock_status: clockbound_clock_status::CLOCKBOUND_STA_UNKNOWN,
    };
    let e = unsafe { clockbound_now(&mut ctx, &mut out) };
    unsafe {
        kani::assert(SNAPSHOT_CALLS == 1, "C17.ffi.now_takes_exactly_one_snapshot");
        if sf == 0 {
            kani::assert(NOW_CALLS == 1 && NOW_SEEN_BOUND == bound, "C17.ffi.now_evaluates_the_snapshot_it_took");
        } else {
            kani::assert(NOW_CALLS == 0, "C17.ffi.now_no_interval_without_a_snapshot");
        }
    }
    if sf == 0 && nf == 0 {
        kani::assert(e.is_null(), "C17.ffi.now_null_on_success");
        kani::assert(out.earliest.tv_sec == res.0 && out.earliest.tv_nsec == res.1 && out.latest.tv_sec == res.2
                     && out.latest.tv_nsec == res.3, "C17.ffi.now_interval_passed_through");
        let code = match out.clock_status {
            clockbound_clock_status::CLOCKBOUND_STA_UNKNOWN => 0,
            clockbound_clock_status::CLOCKBOUND_STA_SYNCHRONIZED => 1,
            clockbound_clock_status::CLOCKBOUND_STA_FREE_RUNNING => 2,
        };
        kani::assert(code == res.4 as i32, "C17.ffi.now_status_passed_through");
    } else {
        let k = if sf != 0 { sf } else { nf };
        kani::assert(!e.is_null(), "C17.ffi.now_error_pointer_on_failure");
        let err = unsafe { &*e };
        let kind = match err.kind {
            clockbound_err_kind::CLOCKBOUND_ERR_NONE => 0,
            clockbound_err_kind::CLOCKBOUND_ERR_SYSCALL => 1,
            clockbound_err_kind::CLOCKBOUND_ERR_SEGMENT_NOT_INITIALIZED => 2,
            clockbound_err_kind::CLOCKBOUND_ERR_SEGMENT_MALFORMED => 3,
            clockbound_err_kind::CLOCKBOUND_ERR_CAUSALITY_BREACH => 4,
        };
        kani::assert(kind == k as i32, "C17.ffi.now_error_kind_passed_through");
        kani::assert(if k == 1 { err.errno == 13 } else { err.errno == 0 }, "C17.ffi.now_errno_passed_through");
        kani::assert(out.earliest.tv_sec == -7 && out.latest.tv_sec == -7, "C17.ffi.now_output_untouched_on_failure");
    }
    std::mem::forget(ctx);
    kani::cover!(sf == 0 && nf == 0, "C17.cover.ffi_now_ok");
    kani::cover!(sf == 0 && nf == 4, "C17.cover.ffi_now_causality");
    kani::cover!(prev == 3 && sf == 0 && nf == 0, "C17.cover.ffi_now_ok_after_an_earlier_malformed_error");
}
