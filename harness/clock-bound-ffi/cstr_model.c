/* strlen for CStr::from_ptr (Kani does not model the foreign function); linked with -Z c-ffi --c-lib */
unsigned long strlen(const char *s) { unsigned long n = 0; while (s[n]) n++; return n; }
