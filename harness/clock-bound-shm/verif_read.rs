// Kani contract harnesses for `ShmReader::snapshot` (clock-bound-shm/src/reader.rs).
// Woven as a child module of `reader` (private fields of ShmReader / MmapGuard are reachable).
use super::*;
// (explicit imports: the harness must not depend on which names reader.rs happens to import)
use crate::shm_header::ShmHeader;
use crate::{ClockErrorBound, ClockStatus, ShmError};
use errno::Errno;
use std::ffi::CStr;
use std::mem::size_of;
use std::ptr;
use std::sync::atomic;
use std::sync::atomic::{AtomicU16, AtomicU32, Ordering};

#[repr(C)]
pub(crate) struct Seg {
    pub hdr: ShmHeader,
    pub ceb: ClockErrorBound,
}

fn any_status() -> ClockStatus {
    let s: u8 = kani::any();
    kani::assume(s < 3);
    match s {
        0 => ClockStatus::Unknown,
        1 => ClockStatus::Synchronized,
        _ => ClockStatus::FreeRunning,
    }
}

pub(crate) fn any_ceb() -> ClockErrorBound {
    ClockErrorBound {
        as_of: libc::timespec { tv_sec: kani::any(), tv_nsec: kani::any() },
        void_after: libc::timespec { tv_sec: kani::any(), tv_nsec: kani::any() },
        bound_nsec: kani::any(),
        max_drift_ppb: kani::any(),
        reserved1: kani::any(),
        clock_status: any_status(),
    }
}

pub(crate) fn ceb_eq(a: &ClockErrorBound, b: &ClockErrorBound) -> bool {
    a.as_of.tv_sec == b.as_of.tv_sec
        && a.as_of.tv_nsec == b.as_of.tv_nsec
        && a.void_after.tv_sec == b.void_after.tv_sec
        && a.void_after.tv_nsec == b.void_after.tv_nsec
        && a.bound_nsec == b.bound_nsec
        && a.max_drift_ppb == b.max_drift_ppb
        && a.reserved1 == b.reserved1
        && a.clock_status as i32 == b.clock_status as i32
}

pub(crate) fn any_seg() -> Seg {
    Seg {
        hdr: ShmHeader {
            magic: [kani::any(), kani::any()],
            segsize: AtomicU32::new(kani::any()),
            version: AtomicU16::new(kani::any()),
            generation: AtomicU16::new(kani::any()),
        },
        ceb: any_ceb(),
    }
}

/// A reader attached to a local segment, with an arbitrary cache.  The caller must `mem::forget`
/// it (Drop of the guard would munmap).
pub(crate) fn reader_over(seg: &mut Seg, cache: ClockErrorBound, cached_gen: u16) -> ShmReader {
    let base: *mut Seg = seg;
    reader_at(base.cast(), cache, cached_gen)
}

/// Same, over any memory laid out as ShmHeader followed by ClockErrorBound.
pub(crate) fn reader_at(base: *mut u8, cache: ClockErrorBound, cached_gen: u16) -> ShmReader {
    let base: *mut Seg = base.cast();
    ShmReader {
        _marker: std::marker::PhantomData,
        _guard: MmapGuard { segment: base.cast(), segsize: std::mem::size_of::<Seg>() },
        version: unsafe { ptr::addr_of!((*base).hdr.version) },
        generation: unsafe { ptr::addr_of!((*base).hdr.generation) },
        ceb_shm: unsafe { ptr::addr_of!((*base).ceb) },
        snapshot_ceb: cache,
        snapshot_gen: cached_gen,
    }
}

// ---- ghost state for the woven probes -----------------------------------------------------------
/// turned to `false` by the weaver when the probe anchors are not found in reader.rs (e.g. after a
/// harmless rewrite of the loop); the counter obligations are then skipped and reported undecided
pub(crate) const READ_PROBES: bool = true; //@FLAG read_probes
static mut RECORD_READS: u32 = 0;
static mut ADVERSARY: *mut Seg = std::ptr::null_mut();
static mut LOADS: u32 = 0;
// "exactly one complete publication lands during the call": at shared access number FLIP_AT the segment
// switches (atomically, as seen at call granularity) to generation FLIP_GEN / record FLIP_REC
static mut FLIP_SEG: *mut Seg = std::ptr::null_mut();
static mut FLIP_AT: u32 = 0;
static mut FLIP_GEN: u16 = 0;
static mut FLIP_REC: Option<ClockErrorBound> = None;

/// Woven in front of the record copy in the retry loop: counts record reads.
pub(crate) fn at_record_read() {
    unsafe {
        RECORD_READS += 1;
    }
}

/// Woven in front of every access to the shared segment (version load, generation loads, record
/// copy).  When a harness registered its segment as adversarial, the segment is overwritten with
/// fresh nondeterministic values: "any writer - dead, stalled, or updating continuously - did
/// anything here".  Otherwise a no-op.
pub(crate) fn environment_step() {
    unsafe {
        LOADS += 1;
        if !FLIP_SEG.is_null() && LOADS == FLIP_AT {
            (*FLIP_SEG).hdr.generation.store(FLIP_GEN, Ordering::Relaxed);
            (*FLIP_SEG).ceb = FLIP_REC.unwrap();
        }
        if !ADVERSARY.is_null() {
            (*ADVERSARY).hdr.version.store(kani::any(), Ordering::Relaxed);
            (*ADVERSARY).hdr.generation.store(kani::any(), Ordering::Relaxed);
            (*ADVERSARY).ceb = any_ceb();
        }
    }
}

/// spin / yield hints have no semantic effect (and the x86 `pause` intrinsic is not supported by Kani)
fn no_op() {}

// =================================================================================================
// C03 / C04 / C18 (early returns): one whole call while the segment does not change
// =================================================================================================
#[kani::proof]
#[kani::unwind(2)]
#[kani::stub(std::hint::spin_loop, no_op)]
#[kani::stub(std::thread::yield_now, no_op)]
fn c03_snapshot_quiescent() {
    let mut seg = any_seg();
    let ver = seg.hdr.version.load(Ordering::Relaxed);
    let gen = seg.hdr.generation.load(Ordering::Relaxed);
    let (magic0, magic1) = (seg.hdr.magic[0], seg.hdr.magic[1]);
    let size0 = seg.hdr.segsize.load(Ordering::Relaxed);
    let shm_rec = seg.ceb;
    let cache = any_ceb();
    let cached_gen: u16 = kani::any();
    let mut r = reader_over(&mut seg, cache, cached_gen);

    let fresh = ver != 0 && gen != 0 && gen & 1 == 0 && gen != cached_gen;
    let out = r.snapshot();
    let out_copy = match out {
        Ok(c) => Some(*c),
        Err(_) => None,
    };
    kani::assert(out_copy.is_some(), "C03.snapshot.never_err_quiescent");
    let got = out_copy.unwrap();
    if fresh {
        kani::assert(ceb_eq(&got, &shm_rec), "C03.snapshot.catches_up");
        kani::assert(r.snapshot_gen == gen, "C03.snapshot.caches_generation");
        kani::assert(ceb_eq(&r.snapshot_ceb, &shm_rec), "C03.snapshot.caches_record");
        if READ_PROBES { unsafe { kani::assert(RECORD_READS == 1, "C18.snapshot.one_read_when_quiescent"); } }
    } else {
        kani::assert(ceb_eq(&got, &cache), "C03.snapshot.serves_cache");
        kani::assert(r.snapshot_gen == cached_gen && ceb_eq(&r.snapshot_ceb, &cache), "C03.snapshot.cache_untouched");
        if READ_PROBES { unsafe { kani::assert(RECORD_READS == 0, "C18.snapshot.early_return_without_reading"); } }
    }
    // crash states (C04): whatever a dead writer left behind, no record is taken from the segment
    // while version is 0, generation is 0 or odd
    if ver == 0 || gen == 0 || gen & 1 == 1 {
        kani::assert(ceb_eq(&got, &cache), "C04.snapshot.crash_state_serves_cache");
    }
    // the reader never writes to the segment
    kani::assert(seg.hdr.version.load(Ordering::Relaxed) == ver && seg.hdr.generation.load(Ordering::Relaxed) == gen
                 && seg.hdr.magic[0] == magic0 && seg.hdr.magic[1] == magic1 && seg.hdr.segsize.load(Ordering::Relaxed) == size0
                 && ceb_eq(&seg.ceb, &shm_rec), "C03.snapshot.segment_untouched");
    std::mem::forget(r);
    kani::cover!(fresh, "C03.cover.fresh");
    kani::cover!(!fresh && ver != 0 && gen & 1 == 1, "C03.cover.odd");
    kani::cover!(gen == cached_gen && gen != 0 && ver != 0, "C03.cover.same_generation");
}

// =================================================================================================
// C18: a call terminates after bounded work whatever the writer does (adversarial segment)
// BOUNDED stand-in: the retry budget literal is overridden by the weaver to `retry_budget()` = 3 and
// the loop fully unwound; the loop body does not depend on the budget.
// =================================================================================================
pub(crate) const BUDGET: u32 = 3;

/// Woven in place of the literal retry budget: the real 1 000 000 unless a harness registered an
/// adversarial segment, in which case BUDGET (so that the loop can be fully unwound).
pub(crate) fn retry_budget() -> i32 {
    if unsafe { ADVERSARY.is_null() } { 1_000_000 } else { BUDGET as i32 }
}

#[kani::proof]
#[kani::unwind(5)]
#[kani::stub(std::hint::spin_loop, no_op)]
#[kani::stub(std::thread::yield_now, no_op)]
fn c18_snapshot_adversarial_bounded() {
    if !READ_PROBES {
        return; // probes not woven: nothing can be said by this harness (obligations reported undecided)
    }
    let mut seg = any_seg();
    let cache = any_ceb();
    let cached_gen: u16 = kani::any();
    let mut r = reader_over(&mut seg, cache, cached_gen);
    unsafe {
        ADVERSARY = &mut seg;
    }
    let out = r.snapshot();
    let reads = unsafe { RECORD_READS };
    let loads = unsafe { LOADS };
    kani::assert(reads <= BUDGET, "C18.snapshot.record_reads_bounded_by_budget");
    kani::assert(loads <= 2 + 2 * BUDGET, "C18.snapshot.shared_accesses_bounded_by_budget");
    match out {
        Ok(c) => {
            let c = *c;
            // either the cache (no read accepted) or a record accepted with an even, non-zero generation
            let from_cache = ceb_eq(&c, &cache) && r.snapshot_gen == cached_gen;
            // (generation 0 can be accepted inside the retry loop when the segment is wiped under the
            // reader - see DESIGN.md, reading note on C04 - so only evenness is an obligation here)
            kani::assert(from_cache || r.snapshot_gen & 1 == 0, "C18.snapshot.accepts_only_even_generation");
        }
        Err(e) => {
            kani::assert(matches!(e, ShmError::SegmentNotInitialized), "C18.snapshot.error_kind_after_budget");
            kani::assert(reads == BUDGET, "C18.snapshot.error_only_after_full_budget");
        }
    }
    unsafe {
        ADVERSARY = std::ptr::null_mut();
    }
    std::mem::forget(r);
    kani::cover!(reads == BUDGET, "C18.cover.budget_exhausted");
    kani::cover!(reads == 0, "C18.cover.early_return");
}

// =================================================================================================
// C16 / C04: `ShmReader::new` on every file content, against a small POSIX file model.
// libc::{open, read, mmap, munmap, close} and errno::errno are replaced by the model below (assumed
// contract on the OS: listed in the evidence).  The file is FILE_LEN (0..=96) symbolic bytes; it
// may be missing (open fails with a symbolic errno) or a directory (read fails with EISDIR); mmap
// may fail with a symbolic errno, otherwise returns a page whose first bytes are the file content
// followed by zeros.
// =================================================================================================
pub(crate) const MODEL_MAX: usize = 96;
pub(crate) const MODEL_CONTENT: usize = 24;
extern "C" {
    // state of harness/clock-bound-shm/posix_model.c
    pub(crate) static mut verif_file: [u8; MODEL_CONTENT];
    pub(crate) static mut verif_file_len: u64;
    pub(crate) static mut verif_fd: i32;
    pub(crate) static mut verif_missing: i32;
    pub(crate) static mut verif_is_dir: i32;
    pub(crate) static mut verif_mmap_fails: i32;
    pub(crate) static mut verif_errno: i32;
    pub(crate) static mut verif_open_fds: i32;
    pub(crate) static mut verif_live_mappings: i32;
    pub(crate) static mut verif_bad_arg: i32;
    pub(crate) static mut verif_page: [u8; 4096];
}

pub(crate) fn le_u32(b: &[u8; MODEL_CONTENT], at: usize) -> u32 {
    u32::from_ne_bytes([b[at], b[at + 1], b[at + 2], b[at + 3]])
}
pub(crate) fn le_u16(b: &[u8; MODEL_CONTENT], at: usize) -> u16 {
    u16::from_ne_bytes([b[at], b[at + 1]])
}

#[kani::proof]
#[kani::unwind(26)]
fn c16_open_any_file() {
    let content: [u8; MODEL_CONTENT] = kani::any();
    let len: usize = kani::any();
    kani::assume(len <= MODEL_MAX);
    let missing: bool = kani::any();
    let is_dir: bool = kani::any();
    let mmap_fails: bool = kani::any();
    let en: i32 = kani::any();
    kani::assume(en > 0);
    unsafe {
        verif_file = content;
        verif_file_len = len as u64;
        verif_missing = missing as i32;
        verif_is_dir = is_dir as i32;
        verif_mmap_fails = mmap_fails as i32;
        verif_errno = en;
        let fd: i32 = kani::any();
        kani::assume(0 <= fd && fd < 1024);
        verif_fd = fd;
    }
    let path = std::ffi::CStr::from_bytes_with_nul(b"/p\0").unwrap();
    let r = ShmReader::new(path);

    // oracle: what the documentation says about the file content
    let has_header = len >= 16;
    let magic_ok = has_header && le_u32(&content, 0) == 0x414D5A4E && le_u32(&content, 4) == 0x43420200;
    let size = if has_header { le_u32(&content, 8) } else { 0 };
    let ver = if has_header { le_u16(&content, 12) } else { 0 };
    let gen = if has_header { le_u16(&content, 14) } else { 0 };
    let header_valid = magic_ok && ver != 0 && gen != 0 && size >= 16;
    let should_open = !missing && !is_dir && header_valid && size >= 72 && !mmap_fails;

    kani::assert(r.is_ok() == should_open, "C16.open.ok_iff_valid_and_large_enough");
    match r {
        Ok(reader) => {
            let page: *mut u8 = unsafe { std::ptr::addr_of_mut!(verif_page).cast() };
            kani::assert(reader.version as *const u8 == unsafe { page.add(12) } as *const u8, "C16.open.version_pointer_at_12");
            kani::assert(reader.generation as *const u8 == unsafe { page.add(14) } as *const u8, "C16.open.generation_pointer_at_14");
            kani::assert(reader.ceb_shm as *const u8 == unsafe { page.add(16) } as *const u8, "C16.open.record_pointer_at_16");
            kani::assert(reader._guard.segsize as u32 == size && size >= 72, "C16.open.maps_declared_size_covering_record");
            // the cache of a fresh reader is empty, or - should `new` ever prime it - it is the file's own
            // publication: the file's (even) generation together with the file's record.  Anything else
            // (a generation that does not belong to the cached record) makes the generation fast path of
            // `snapshot` serve a record under a false name (C03: catch-up; C01: torn or stale record trusted).
            let cached_gen = reader.snapshot_gen;
            let c = &reader.snapshot_ceb;
            let rec = unsafe { page.add(16) };
            let rd64 = |o: usize| unsafe { (rec.add(o) as *const i64).read_unaligned() };
            let rd32 = |o: usize| unsafe { (rec.add(o) as *const u32).read_unaligned() };
            let same_record = rd64(0) == c.as_of.tv_sec && rd64(8) == c.as_of.tv_nsec
                && rd64(16) == c.void_after.tv_sec && rd64(24) == c.void_after.tv_nsec
                && rd64(32) == c.bound_nsec && rd32(40) == c.max_drift_ppb && rd32(44) == c.reserved1
                && rd32(48) == (c.clock_status as i32 as u32);
            kani::assert(cached_gen == 0 || (cached_gen == gen && gen & 1 == 0 && same_record),
                         "C16.open.cache_is_empty_or_the_file_s_own_publication");
            unsafe {
                kani::assert(verif_open_fds == 0, "C16.open.descriptor_closed_on_success");
                kani::assert(verif_live_mappings == 1, "C16.open.mapping_kept_on_success");
            }
            std::mem::forget(reader);
        }
        Err(e) => {
            unsafe {
                kani::assert(verif_open_fds == 0, "C16.open.descriptor_closed_on_error");
                kani::assert(verif_live_mappings == 0, "C16.open.mapping_released_on_error");
            }
            if missing {
                kani::assert(matches!(e, ShmError::SyscallError(::errno::Errno(x), _) if x == en), "C16.open.missing_file_is_open_errno");
            } else if is_dir {
                kani::assert(matches!(e, ShmError::SyscallError(::errno::Errno(x), _) if x == en), "C16.open.directory_is_read_errno");
            } else if !has_header || !magic_ok || ver == 0 || gen == 0 {
                kani::assert(matches!(e, ShmError::SegmentNotInitialized), "C16.open.short_or_unfinished_is_not_initialised");
                kani::assert(matches!(e, ShmError::SegmentNotInitialized), "C04.open.rejects_unfinished_segment");
            } else if size < 16 {
                kani::assert(matches!(e, ShmError::SegmentMalformed), "C16.open.declared_size_below_header_is_malformed");
            } else if mmap_fails {
                kani::assert(matches!(e, ShmError::SyscallError(::errno::Errno(x), _) if x == en), "C16.open.mmap_failure_is_errno");
            } else {
                // 16 <= declared size < 72: header only, no room for the record
                kani::assert(matches!(e, ShmError::SegmentMalformed), "C16.open.too_small_is_malformed");
            }
        }
    }
    unsafe { kani::assert(verif_bad_arg == 0, "C16.open.uses_its_own_descriptor_and_mapping"); }
    kani::cover!(should_open, "C16.cover.opens");
    kani::cover!(!missing && !is_dir && header_valid && size < 72, "C16.cover.too_small");
    kani::cover!(!missing && !is_dir && len < 16, "C16.cover.truncated");
}


// =================================================================================================
// C03 "catch up once the writer is idle", one step beyond the quiescent case: exactly ONE complete
// publication (g1 -> g2, both even and non-zero, record replaced) lands at an arbitrary point DURING
// the call and the segment is quiet afterwards.  The call must not fail and must not return a mixture:
// it returns the old record (if it had finished reading before the switch), or catches up with the new
// one - and it needs at most two loop iterations (the unwinding bound is the obligation).
// =================================================================================================
#[kani::proof]
#[kani::unwind(3)]
#[kani::stub(std::hint::spin_loop, no_op)]
#[kani::stub(std::thread::yield_now, no_op)]
fn c03_snapshot_one_publication_during_the_call() {
    if !READ_PROBES {
        return;
    }
    let mut seg = any_seg();
    let ver = seg.hdr.version.load(Ordering::Relaxed);
    let g1 = seg.hdr.generation.load(Ordering::Relaxed);
    kani::assume(ver != 0 && g1 != 0 && g1 & 1 == 0);
    let rec1 = seg.ceb;
    let g2: u16 = kani::any();
    kani::assume(g2 != 0 && g2 & 1 == 0 && g2 != g1);
    let rec2 = any_ceb();
    let cache = any_ceb();
    let cached_gen: u16 = kani::any();
    kani::assume(cached_gen != g1 && cached_gen != g2);
    let flip_at: u32 = kani::any();
    kani::assume(1 <= flip_at && flip_at <= 6);
    let mut r = reader_over(&mut seg, cache, cached_gen);
    unsafe {
        FLIP_SEG = &mut seg;
        FLIP_AT = flip_at;
        FLIP_GEN = g2;
        FLIP_REC = Some(rec2);
    }
    let got = match r.snapshot() {
        Ok(c) => Some(*c),
        Err(_) => None,
    };
    unsafe {
        FLIP_SEG = std::ptr::null_mut();
    }
    kani::assert(got.is_some(), "C03.one_update.never_an_error");
    let got = got.unwrap();
    let old = ceb_eq(&got, &rec1) && r.snapshot_gen == g1;
    let new = ceb_eq(&got, &rec2) && r.snapshot_gen == g2;
    kani::assert(old || new, "C03.one_update.returns_one_whole_publication_with_its_generation");
    // if the switch happened before the call's first generation load, the call sees only the new state
    if flip_at <= 2 {
        kani::assert(new, "C03.one_update.switch_before_the_first_generation_load_is_caught_up");
    }
    // the switch lands between the record copy and the confirming load, or later: the first read is
    // discarded and the call catches up with the new publication in its second iteration
    std::mem::forget(r);
    kani::cover!(old, "C03.cover.one_update_old");
    kani::cover!(new && flip_at >= 3, "C03.cover.one_update_caught_up_after_retry");
}
