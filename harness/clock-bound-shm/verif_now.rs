// Kani contract harness for `ClockErrorBound::now` (clock-bound-shm/src/lib.rs): the order of the
// two clock reads and the pass-through to compute_bound_at.  Child module of the crate root.
use crate::common::{CLOCK_MONOTONIC, CLOCK_REALTIME};
use crate::*;

static mut TICK: i64 = 0;
static mut READS: u32 = 0;
static mut FIRST_ID: libc::clockid_t = -1;
static mut SECOND_ID: libc::clockid_t = -1;
static mut FAIL_AT: u32 = 0; // 0 = never, 1 = first read fails, 2 = second read fails
static mut COMPUTE_CALLS: u32 = 0;
static mut COMPUTE_REAL: i64 = -1;
static mut COMPUTE_MONO: i64 = -1;

/// assumed contract of clock_gettime_safe: the current reading of the requested clock, or an error.
/// The ghost clock hands out strictly increasing ticks (as whole seconds).
fn ghost_clock(clock_id: libc::clockid_t) -> Result<libc::timespec, ShmError> {
    unsafe {
        READS += 1;
        if READS == 1 {
            FIRST_ID = clock_id;
        } else if READS == 2 {
            SECOND_ID = clock_id;
        }
        if FAIL_AT == READS {
            return Err(ShmError::SegmentNotInitialized);
        }
        TICK += 1;
        Ok(libc::timespec { tv_sec: TICK, tv_nsec: 0 })
    }
}

/// compute_bound_at replaced by a recorder (its own contract is C05/C06/C14)
fn stub_compute(_this: &ClockErrorBound, real: libc::timespec, mono: libc::timespec)
    -> Result<(libc::timespec, libc::timespec, ClockStatus), ShmError> {
    unsafe {
        COMPUTE_CALLS += 1;
        COMPUTE_REAL = real.tv_sec;
        COMPUTE_MONO = mono.tv_sec;
    }
    Ok((real, mono, ClockStatus::FreeRunning))
}

#[kani::proof]
#[kani::stub(crate::common::clock_gettime_safe, ghost_clock)]
#[kani::stub(ClockErrorBound::compute_bound_at, stub_compute)]
fn c12_now_reads_realtime_then_monotonic() {
    let fail_at: u32 = kani::any();
    kani::assume(fail_at <= 2);
    unsafe {
        FAIL_AT = fail_at;
    }
    // any record: the wrapper must read both clocks whatever the record says
    let st: u8 = kani::any();
    kani::assume(st < 3);
    let c = ClockErrorBound {
        as_of: libc::timespec { tv_sec: kani::any(), tv_nsec: kani::any() },
        void_after: libc::timespec { tv_sec: kani::any(), tv_nsec: kani::any() },
        bound_nsec: kani::any(),
        max_drift_ppb: kani::any(),
        reserved1: kani::any(),
        clock_status: match st { 0 => ClockStatus::Unknown, 1 => ClockStatus::Synchronized, _ => ClockStatus::FreeRunning },
    };
    let r = c.now();
    unsafe {
        kani::assert(FIRST_ID == libc::CLOCK_REALTIME, "C12.now.first_read_is_realtime");
        kani::assert(CLOCK_REALTIME == libc::CLOCK_REALTIME, "C12.now.realtime_constant_is_the_os_realtime_clock");
        kani::assert(CLOCK_MONOTONIC == libc::CLOCK_MONOTONIC_COARSE || CLOCK_MONOTONIC == libc::CLOCK_MONOTONIC,
                     "C12.now.monotonic_constant_is_an_os_monotonic_clock");
        if fail_at != 1 {
            kani::assert(READS == 2, "C12.now.exactly_two_clock_reads");
            kani::assert(SECOND_ID == CLOCK_MONOTONIC, "C12.now.second_read_is_monotonic");
        }
        if fail_at == 0 {
            kani::assert(COMPUTE_CALLS == 1, "C12.now.computes_once");
            kani::assert(COMPUTE_REAL == 1 && COMPUTE_MONO == 2, "C12.now.realtime_reading_precedes_monotonic_reading");
            kani::assert(matches!(r, Ok((e, l, ClockStatus::FreeRunning)) if e.tv_sec == 1 && l.tv_sec == 2), "C12.now.result_passed_through");
        } else {
            kani::assert(COMPUTE_CALLS == 0 && r.is_err(), "C14.now.clock_failure_is_an_error_not_an_interval");
        }
    }
    kani::cover!(fail_at == 0 && st == 0, "C12.cover.ok_unknown_record");
    kani::cover!(fail_at == 0, "C12.cover.ok");
    kani::cover!(fail_at == 2, "C12.cover.second_fails");
}


// clock_gettime_safe itself, on a C model of clock_gettime(2) (clock_model.c): one system call with
// the requested clock id; the kernel's reading is returned unchanged; a negative return is an error
// carrying errno
extern "C" {
    static mut verif_clock_calls: i32;
    static mut verif_clock_id: i32;
    static mut verif_clock_ret: i32;
    static mut verif_clock_errno: i32;
    static mut verif_clock_sec: i64;
    static mut verif_clock_nsec: i64;
}

#[kani::proof]
#[kani::unwind(20)]
fn c12_clock_gettime_safe_is_one_system_call() {
    let id: libc::clockid_t = kani::any();
    let (sec, nsec): (i64, i64) = (kani::any(), kani::any());
    let fails: bool = kani::any();
    let en: i32 = kani::any();
    unsafe {
        verif_clock_ret = if fails { -1 } else { 0 };
        verif_clock_errno = en;
        verif_clock_sec = sec;
        verif_clock_nsec = nsec;
    }
    let r = crate::common::clock_gettime_safe(id);
    unsafe {
        kani::assert(verif_clock_calls == 1 && verif_clock_id == id, "C12.clock.one_call_with_the_requested_clock_id");
    }
    match r {
        Ok(t) => kani::assert(!fails && t.tv_sec == sec && t.tv_nsec == nsec, "C12.clock.reading_returned_unchanged"),
        Err(e) => kani::assert(fails && matches!(e, ShmError::SyscallError(errno::Errno(x), _) if x == en), "C14.clock.failure_is_a_syscall_error_with_errno"),
    }
    kani::cover!(fails, "C12.cover.clock_fails");
    kani::cover!(!fails, "C12.cover.clock_ok");
}
