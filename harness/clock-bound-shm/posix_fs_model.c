/* A model of ONE regular file and the POSIX calls that clock-bound-shm's writer and reader make on
 * it, linked into the Kani run with `-Z c-ffi --c-lib`.  Unlike posix_model.c (read-only probe), this
 * one keeps the file content, per-descriptor offsets, O_CREAT/O_TRUNC, write/lseek/fsync, and mmap
 * returns a pointer INTO the file buffer, i.e. MAP_SHARED aliasing is exact: what one mapping stores
 * is what read() and every other mapping see.  ASSUMED contract on the OS (listed in the evidence):
 * no I/O errors other than "file does not exist", full (not short) reads and writes, bytes of the
 * mapping beyond the end of the file read as zero. */
#define FS_MAX 4096
#define FS_NFD 8
#define FS_O_ACCMODE 3
#define FS_O_CREAT 0100
#define FS_O_TRUNC 01000

unsigned char fs_file[FS_MAX];
unsigned long fs_file_len = 0;
int fs_exists = 0;
int fs_errno = 0;
int fs_open_fds = 0;
int fs_live_mappings = 0;
int fs_bad_arg = 0;
int fs_creates = 0;       /* how many times the file was created/truncated */
int fs_fsyncs = 0;
unsigned long fs_off[FS_NFD];
int fs_used[FS_NFD];

int *__errno_location(void) { return &fs_errno; }

static int fs_do_open(int flags) {
  if (!fs_exists && !(flags & FS_O_CREAT)) { fs_errno = 2; return -1; }
  if (!fs_exists) { fs_exists = 1; fs_file_len = 0; }
  if (flags & FS_O_CREAT) fs_creates++;
  if (flags & FS_O_TRUNC) {
    __builtin_memset(fs_file, 0, 128);   /* a fresh, empty file (harness files are <= 96 bytes) */
    fs_file_len = 0;
  }
  for (int fd = 3; fd < FS_NFD; fd++) {
    if (!fs_used[fd]) { fs_used[fd] = 1; fs_off[fd] = 0; fs_open_fds++; return fd; }
  }
  fs_bad_arg = 1;
  return -1;
}

int open(const char *path, int flags, ...) { (void)path; return fs_do_open(flags); }
int open64(const char *path, int flags, ...) { (void)path; return fs_do_open(flags); }

int close(int fd) {
  if (fd < 3 || fd >= FS_NFD || !fs_used[fd]) { fs_bad_arg = 1; return -1; }
  fs_used[fd] = 0; fs_open_fds--;
  return 0;
}

long read(int fd, void *buf, unsigned long count) {
  if (fd < 3 || fd >= FS_NFD || !fs_used[fd]) { fs_bad_arg = 1; return -1; }
  unsigned long off = fs_off[fd];
  unsigned long avail = off < fs_file_len ? fs_file_len - off : 0;
  unsigned long n = count < avail ? count : avail;
  unsigned char *dst = (unsigned char *)buf;
  if (n > 0) __builtin_memcpy(dst, fs_file + off, n);
  fs_off[fd] = off + n;
  return (long)n;
}

long write(int fd, const void *buf, unsigned long count) {
  if (fd < 3 || fd >= FS_NFD || !fs_used[fd]) { fs_bad_arg = 1; return -1; }
  unsigned long off = fs_off[fd];
  if (off + count > 100) { fs_bad_arg = 1; return -1; }
  const unsigned char *src = (const unsigned char *)buf;
  if (count > 0) __builtin_memcpy(fs_file + off, src, count);
  fs_off[fd] = off + count;
  if (fs_off[fd] > fs_file_len) fs_file_len = fs_off[fd];
  return (long)count;
}

long lseek64(int fd, long off, int whence) {
  if (fd < 3 || fd >= FS_NFD || !fs_used[fd]) { fs_bad_arg = 1; return -1; }
  if (whence == 0) fs_off[fd] = (unsigned long)off;
  else if (whence == 1) fs_off[fd] = fs_off[fd] + (unsigned long)off;
  else fs_off[fd] = fs_file_len + (unsigned long)off;
  return (long)fs_off[fd];
}
long lseek(int fd, long off, int whence) { return lseek64(fd, off, whence); }

int fsync(int fd) { if (fd < 3 || fd >= FS_NFD || !fs_used[fd]) fs_bad_arg = 1; fs_fsyncs++; return 0; }

void *mmap(void *addr, unsigned long len, int prot, int flags, int fd, long off) {
  (void)addr; (void)prot; (void)flags;
  if (fd < 3 || fd >= FS_NFD || !fs_used[fd] || off != 0 || len == 0 || len > FS_MAX) { fs_bad_arg = 1; return (void *)(~0UL); }
  fs_live_mappings++;
  return (void *)fs_file;
}
void *mmap64(void *addr, unsigned long len, int prot, int flags, int fd, long off) { return mmap(addr, len, prot, flags, fd, off); }

int munmap(void *addr, unsigned long len) {
  (void)len;
  if (addr != (void *)fs_file) fs_bad_arg = 1;
  fs_live_mappings--;
  return 0;
}
