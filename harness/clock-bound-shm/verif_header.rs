// Kani contract harnesses for `ShmHeader::{is_valid, read}` (clock-bound-shm/src/shm_header.rs).
// Woven as a child module of `shm_header`.
use super::*;
use crate::ShmError;
use std::mem::size_of;
use std::sync::atomic;
use std::sync::atomic::{AtomicU16, AtomicU32};

fn kind(e: &ShmError) -> u8 {
    match e {
        ShmError::SyscallError(_, _) => 1,
        ShmError::SegmentNotInitialized => 2,
        ShmError::SegmentMalformed => 3,
        ShmError::CausalityBreach => 4,
    }
}

/// `is_valid` over all 2^128 header contents: Ok <=> magic matches, version != 0, generation != 0,
/// declared size >= 16; error kind per failing clause in the documented order.
#[kani::proof]
fn c16_header_is_valid() {
    let (m0, m1): (u32, u32) = (kani::any(), kani::any());
    let size: u32 = kani::any();
    let ver: u16 = kani::any();
    let gen: u16 = kani::any();
    let h = ShmHeader {
        magic: [m0, m1],
        segsize: AtomicU32::new(size),
        version: AtomicU16::new(ver),
        generation: AtomicU16::new(gen),
    };
    let r = h.is_valid();
    let magic_ok = m0 == 0x414D5A4E && m1 == 0x43420200;
    let all_ok = magic_ok && ver != 0 && gen != 0 && size >= 16;
    kani::assert(r.is_ok() == all_ok, "C16.header.ok_iff_all_checks");
    if let Err(e) = r {
        if !magic_ok || ver == 0 || gen == 0 {
            kani::assert(kind(&e) == 2, "C16.header.not_initialised_kind");
        } else {
            kani::assert(kind(&e) == 3, "C16.header.malformed_kind");
        }
    }
    kani::cover!(all_ok, "C16.cover.valid");
    kani::cover!(magic_ok && ver != 0 && gen != 0 && size < 16, "C16.cover.malformed");
}

#[kani::proof]
fn c16_header_layout() {
    kani::assert(std::mem::size_of::<ShmHeader>() == 16, "C17.layout.header_size_16");
    kani::assert(std::mem::align_of::<ShmHeader>() == 8, "C17.layout.header_align_8");
    kani::assert(std::mem::offset_of!(ShmHeader, magic) == 0, "C17.layout.magic_at_0");
    kani::assert(std::mem::offset_of!(ShmHeader, segsize) == 8, "C17.layout.segsize_at_8");
    kani::assert(std::mem::offset_of!(ShmHeader, version) == 12, "C17.layout.version_at_12");
    kani::assert(std::mem::offset_of!(ShmHeader, generation) == 14, "C17.layout.generation_at_14");
    kani::assert(SHM_MAGIC[0] == 0x414D5A4E && SHM_MAGIC[1] == 0x43420200, "C17.layout.magic_value");
    kani::cover!(true, "C17.cover.header_layout_end");
}
