// Kani contract harnesses for `ShmWrite::write` (clock-bound-shm/src/writer.rs).
// Woven as a child module of `writer` so that the private fields of `ShmWriter` are reachable.
// Obligation names (`C11.write.*`, ...) are the assertion messages.
use super::*;
use crate::shm_header::{ShmHeader, SHM_MAGIC};
use crate::{ClockErrorBound, ClockStatus};
use std::sync::atomic::Ordering;

#[repr(C)]
pub(crate) struct Seg {
    pub hdr: ShmHeader,
    pub ceb: ClockErrorBound,
}

pub(crate) fn any_status() -> ClockStatus {
    let s: u8 = kani::any();
    kani::assume(s < 3);
    match s {
        0 => ClockStatus::Unknown,
        1 => ClockStatus::Synchronized,
        _ => ClockStatus::FreeRunning,
    }
}

pub(crate) fn any_ceb() -> ClockErrorBound {
    ClockErrorBound {
        as_of: libc::timespec { tv_sec: kani::any(), tv_nsec: kani::any() },
        void_after: libc::timespec { tv_sec: kani::any(), tv_nsec: kani::any() },
        bound_nsec: kani::any(),
        max_drift_ppb: kani::any(),
        reserved1: kani::any(),
        clock_status: any_status(),
    }
}

pub(crate) fn ceb_eq(a: &ClockErrorBound, b: &ClockErrorBound) -> bool {
    a.as_of.tv_sec == b.as_of.tv_sec
        && a.as_of.tv_nsec == b.as_of.tv_nsec
        && a.void_after.tv_sec == b.void_after.tv_sec
        && a.void_after.tv_nsec == b.void_after.tv_nsec
        && a.bound_nsec == b.bound_nsec
        && a.max_drift_ppb == b.max_drift_ppb
        && a.reserved1 == b.reserved1
        && a.clock_status as i32 == b.clock_status as i32
}

/// A segment with arbitrary content (any magic, size, version, generation, record).
pub(crate) fn any_seg() -> Seg {
    Seg {
        hdr: ShmHeader {
            magic: [kani::any(), kani::any()],
            segsize: atomic::AtomicU32::new(kani::any()),
            version: atomic::AtomicU16::new(kani::any()),
            generation: atomic::AtomicU16::new(kani::any()),
        },
        ceb: any_ceb(),
    }
}

/// A writer over a local segment. The caller must `mem::forget` it (Drop would munmap).
pub(crate) fn writer_over(seg: &mut Seg) -> ShmWriter {
    let addr: *mut c_void = (seg as *mut Seg).cast();
    ShmWriter {
        segsize: size_of::<Seg>(),
        addr,
        version: unsafe { ptr::addr_of_mut!((*seg).hdr.version) },
        generation: unsafe { ptr::addr_of_mut!((*seg).hdr.generation) },
        ceb: unsafe { ptr::addr_of_mut!((*seg).ceb) },
    }
}

// ---- ghost state for the woven in-body probes -------------------------------------------------
static mut COPY_PROBES: u32 = 0;
static mut GEN_BEFORE_COPY: u16 = 0;
static mut GEN_AFTER_COPY: u16 = 0;

/// Woven immediately before (`phase == 0`) and after (`phase == 1`) the record copy in `write`.
pub(crate) fn at_copy(w: &ShmWriter, phase: u8) {
    let g = unsafe { (*w.generation).load(Ordering::Relaxed) };
    unsafe {
        COPY_PROBES += 1;
        if phase == 0 {
            GEN_BEFORE_COPY = g;
        } else {
            GEN_AFTER_COPY = g;
        }
    }
    if phase == 0 {
        kani::assert(g & 1 == 1, "C11.write.gen_odd_before_copy");
    } else {
        kani::assert(g & 1 == 1, "C11.write.gen_odd_after_copy");
    }
}

/// The documented successor of a generation value (shared with the Verus lemma `next_gen`).
pub(crate) fn next_gen(g: u16) -> u16 {
    let odd = if g & 1 == 0 { g.wrapping_add(1) } else { g };
    let n = odd.wrapping_add(1);
    if n == 0 { 2 } else { n }
}

#[kani::proof]
fn c11_write_contract() {
    let mut seg = any_seg();
    let g0 = seg.hdr.generation.load(Ordering::Relaxed);
    let magic0 = seg.hdr.magic;
    let size0 = seg.hdr.segsize.load(Ordering::Relaxed);
    let ver0 = seg.hdr.version.load(Ordering::Relaxed);
    let new = any_ceb();

    let mut w = writer_over(&mut seg);
    w.write(&new);
    std::mem::forget(w);

    let g1 = seg.hdr.generation.load(Ordering::Relaxed);
    kani::assert(g1 & 1 == 0, "C11.write.final_even");
    kani::assert(g1 != 0, "C11.write.final_nonzero");
    kani::assert(g1 != g0, "C11.write.final_differs");
    kani::assert(g1 == next_gen(g0), "C11.write.final_value");
    // even g -> g+2 (65534 -> 2); odd g -> g+1 (65535 -> 2): adopted, not double-incremented
    if g0 & 1 == 0 && g0 != 65534 {
        kani::assert(g1 == g0 + 2, "C11.write.final_value_even_start");
    }
    if g0 & 1 == 1 && g0 != 65535 {
        kani::assert(g1 == g0 + 1, "C11.write.final_value_odd_start");
    }
    if g0 >= 65534 {
        kani::assert(g1 == 2, "C11.write.wrap_continues_at_2");
    }
    unsafe {
        kani::assert(COPY_PROBES == 2, "C11.write.copy_probes_reached");
        kani::assert(GEN_BEFORE_COPY == GEN_AFTER_COPY, "C11.write.gen_stable_during_copy");
        kani::assert(
            GEN_BEFORE_COPY == if g0 & 1 == 0 { g0.wrapping_add(1) } else { g0 },
            "C11.write.odd_value_adopted_or_incremented",
        );
    }
    kani::assert(ceb_eq(&seg.ceb, &new), "C11.write.record_published");
    kani::assert(seg.hdr.magic == magic0, "C11.write.frame_magic");
    kani::assert(seg.hdr.segsize.load(Ordering::Relaxed) == size0, "C11.write.frame_segsize");
    kani::assert(seg.hdr.version.load(Ordering::Relaxed) == ver0, "C11.write.frame_version");
    kani::cover!(g0 == 65535, "C11.cover.start_65535");
    kani::cover!(g0 == 65534, "C11.cover.start_65534");
    kani::cover!(g0 == 0, "C11.cover.start_0");
}
