// Kani contract harnesses for `ShmWrite::write` (clock-bound-shm/src/writer.rs).
// Woven as a child module of `writer` so that the private fields of `ShmWriter` are reachable.
// Obligation names (`C11.write.*`, ...) are the assertion messages.
use super::*;
// (explicit imports: the harness must not depend on which names writer.rs happens to import)
use crate::reader::ShmReader;
use crate::shm_header::{ShmHeader, SHM_MAGIC};
use crate::{ClockErrorBound, ClockStatus, ShmError};
use std::ffi::{c_void, CStr, CString};
use std::io::{Error, ErrorKind};
use std::mem::size_of;
use std::path::Path;
use std::sync::atomic;
use std::sync::atomic::Ordering;
use std::{fs, ptr};

#[repr(C)]
pub(crate) struct Seg {
    pub hdr: ShmHeader,
    pub ceb: ClockErrorBound,
}

pub(crate) fn any_status() -> ClockStatus {
    let s: u8 = kani::any();
    kani::assume(s < 3);
    match s {
        0 => ClockStatus::Unknown,
        1 => ClockStatus::Synchronized,
        _ => ClockStatus::FreeRunning,
    }
}

pub(crate) fn any_ceb() -> ClockErrorBound {
    ClockErrorBound {
        as_of: libc::timespec { tv_sec: kani::any(), tv_nsec: kani::any() },
        void_after: libc::timespec { tv_sec: kani::any(), tv_nsec: kani::any() },
        bound_nsec: kani::any(),
        max_drift_ppb: kani::any(),
        reserved1: kani::any(),
        clock_status: any_status(),
    }
}

pub(crate) fn ceb_eq(a: &ClockErrorBound, b: &ClockErrorBound) -> bool {
    a.as_of.tv_sec == b.as_of.tv_sec
        && a.as_of.tv_nsec == b.as_of.tv_nsec
        && a.void_after.tv_sec == b.void_after.tv_sec
        && a.void_after.tv_nsec == b.void_after.tv_nsec
        && a.bound_nsec == b.bound_nsec
        && a.max_drift_ppb == b.max_drift_ppb
        && a.reserved1 == b.reserved1
        && a.clock_status as i32 == b.clock_status as i32
}

/// A segment with arbitrary content (any magic, size, version, generation, record).
pub(crate) fn any_seg() -> Seg {
    Seg {
        hdr: ShmHeader {
            magic: [kani::any(), kani::any()],
            segsize: atomic::AtomicU32::new(kani::any()),
            version: atomic::AtomicU16::new(kani::any()),
            generation: atomic::AtomicU16::new(kani::any()),
        },
        ceb: any_ceb(),
    }
}

/// A writer over a local segment. The caller must `mem::forget` it (Drop would munmap).
pub(crate) fn writer_over(seg: &mut Seg) -> ShmWriter {
    let addr: *mut c_void = (seg as *mut Seg).cast();
    ShmWriter {
        segsize: size_of::<Seg>(),
        addr,
        version: unsafe { ptr::addr_of_mut!((*seg).hdr.version) },
        generation: unsafe { ptr::addr_of_mut!((*seg).hdr.generation) },
        ceb: unsafe { ptr::addr_of_mut!((*seg).ceb) },
    }
}

// ---- ghost state for the woven in-body probes -------------------------------------------------
/// turned to `false` by the weaver when `self.ceb.write(*ceb);` is not found in writer.rs
pub(crate) const WRITE_PROBES: bool = true; //@FLAG write_probes
static mut COPY_PROBES: u32 = 0;
static mut GEN_BEFORE_COPY: u16 = 0;
static mut GEN_AFTER_COPY: u16 = 0;

/// Woven immediately before (`phase == 0`) and after (`phase == 1`) the record copy in `write`.
pub(crate) fn at_copy(w: &ShmWriter, phase: u8) {
    let g = unsafe { (*w.generation).load(Ordering::Relaxed) };
    unsafe {
        COPY_PROBES += 1;
        if phase == 0 {
            GEN_BEFORE_COPY = g;
        } else {
            GEN_AFTER_COPY = g;
        }
    }
    if phase == 0 {
        kani::assert(g & 1 == 1, "C11.write.gen_odd_before_copy");
    } else {
        kani::assert(g & 1 == 1, "C11.write.gen_odd_after_copy");
    }
}

/// The documented successor of a generation value (shared with the Verus lemma `next_gen`).
pub(crate) fn next_gen(g: u16) -> u16 {
    let odd = if g & 1 == 0 { g.wrapping_add(1) } else { g };
    let n = odd.wrapping_add(1);
    if n == 0 { 2 } else { n }
}

#[kani::proof]
fn c11_write_contract() {
    let mut seg = any_seg();
    let g0 = seg.hdr.generation.load(Ordering::Relaxed);
    let magic0 = seg.hdr.magic;
    let size0 = seg.hdr.segsize.load(Ordering::Relaxed);
    let ver0 = seg.hdr.version.load(Ordering::Relaxed);
    let new = any_ceb();

    let mut w = writer_over(&mut seg);
    w.write(&new);
    std::mem::forget(w);

    let g1 = seg.hdr.generation.load(Ordering::Relaxed);
    kani::assert(g1 & 1 == 0, "C11.write.final_even");
    kani::assert(g1 != 0, "C11.write.final_nonzero");
    kani::assert(g1 != g0, "C11.write.final_differs");
    kani::assert(g1 == next_gen(g0), "C11.write.final_value");
    // even g -> g+2 (65534 -> 2); odd g -> g+1 (65535 -> 2): adopted, not double-incremented
    if g0 & 1 == 0 && g0 != 65534 {
        kani::assert(g1 == g0 + 2, "C11.write.final_value_even_start");
    }
    if g0 & 1 == 1 && g0 != 65535 {
        kani::assert(g1 == g0 + 1, "C11.write.final_value_odd_start");
    }
    if g0 >= 65534 {
        kani::assert(g1 == 2, "C11.write.wrap_continues_at_2");
    }
    if WRITE_PROBES { unsafe {
        kani::assert(COPY_PROBES == 2, "C11.write.copy_probes_reached");
        kani::assert(GEN_BEFORE_COPY == GEN_AFTER_COPY, "C11.write.gen_stable_during_copy");
        kani::assert(
            GEN_BEFORE_COPY == if g0 & 1 == 0 { g0.wrapping_add(1) } else { g0 },
            "C11.write.odd_value_adopted_or_incremented",
        );
    } }
    kani::assert(ceb_eq(&seg.ceb, &new), "C11.write.record_published");
    kani::assert(seg.hdr.magic == magic0, "C11.write.frame_magic");
    kani::assert(seg.hdr.segsize.load(Ordering::Relaxed) == size0, "C11.write.frame_segsize");
    kani::assert(seg.hdr.version.load(Ordering::Relaxed) == ver0, "C11.write.frame_version");
    kani::cover!(g0 == 65535, "C11.cover.start_65535");
    kani::cover!(g0 == 65534, "C11.cover.start_65534");
    kani::cover!(g0 == 0, "C11.cover.start_0");
}

// =================================================================================================
// C16: layout constants of the writer, and write -> fresh reader round trip
// =================================================================================================
#[kani::proof]
fn c16_segment_size() {
    let n = ShmWriter::segment_size();
    kani::assert(n == 72, "C16.size.segment_is_72_bytes");
    kani::assert(n >= size_of::<ShmHeader>() + size_of::<ClockErrorBound>(), "C16.size.covers_header_and_record");
    kani::assert(n % 8 == 0, "C16.size.multiple_of_8");
    kani::assert(size_of::<Seg>() == 72, "C17.layout.header_plus_record_is_72");
    kani::cover!(true, "C16.cover.size_end");
}

/// Whatever the segment contained (any generation, odd or even, any record), after one `write` a
/// reader that attaches afresh (empty cache, cached generation 0) obtains exactly the record that
/// was published.  Uses the real write and the real snapshot on the same memory.
#[kani::proof]
#[kani::unwind(2)]
fn c16_write_then_fresh_snapshot_roundtrip() {
    let mut seg = any_seg();
    seg.hdr.version.store(1, Ordering::Relaxed); // ShmWriter::new stores version 1 (C04.new.*)
    let new = any_ceb();
    let mut w = writer_over(&mut seg);
    w.write(&new);
    std::mem::forget(w);
    let base: *mut Seg = &mut seg;
    let mut r = crate::reader::verif_read::reader_at(base.cast(), ClockErrorBound::default(), 0);
    let got = match r.snapshot() {
        Ok(c) => Some(*c),
        Err(_) => None,
    };
    kani::assert(got.is_some(), "C16.roundtrip.snapshot_succeeds");
    kani::assert(ceb_eq(&got.unwrap(), &new), "C16.roundtrip.reads_back_exactly_what_was_published");
    std::mem::forget(r);
    kani::cover!(true, "C16.cover.roundtrip_end");
}

// =================================================================================================
// C04: ShmWriter::new -- in-place takeover of a usable segment, wipe of an unusable one.
// is_usable_segment / wipe / mmap_segment_at are file-system code that neither tool can execute;
// they are replaced by contract stubs with ghost flags (ASSUMED contracts, listed in the evidence):
//   is_usable_segment: Ok iff a ShmReader can open the file (proved separately: C16.open.*)
//   wipe:              re-creates the file as magic, size, version 0, generation 0, zero record
//   mmap_segment_at:   maps the file MAP_SHARED (aliases the same bytes readers have mapped)
// =================================================================================================
static mut PROBE_OK: bool = false;
static mut WIPE_FAILS: bool = false;
static mut WIPE_CALLS: u32 = 0;
static mut MMAP_CALLS: u32 = 0;
static mut WIPE_SEGSIZE: usize = 0;
static mut THE_SEG: *mut Seg = std::ptr::null_mut();

fn stub_is_usable_segment(_path: &Path) -> Result<(), ShmError> {
    if unsafe { PROBE_OK } { Ok(()) } else { Err(ShmError::SegmentNotInitialized) }
}

fn stub_wipe(_path: &Path, segsize: usize) -> std::io::Result<()> {
    unsafe {
        WIPE_CALLS += 1;
        WIPE_SEGSIZE = segsize;
        if WIPE_FAILS {
            return Err(Error::new(ErrorKind::Other, "wipe failed"));
        }
        let s = &mut *THE_SEG;
        s.hdr.magic = SHM_MAGIC;
        s.hdr.segsize.store(segsize as u32, Ordering::Relaxed);
        s.hdr.version.store(0, Ordering::Relaxed);
        s.hdr.generation.store(0, Ordering::Relaxed);
        s.ceb = ClockErrorBound::default();
    }
    Ok(())
}

fn stub_mmap_segment_at(_path: &Path, _segsize: usize) -> std::io::Result<*mut c_void> {
    unsafe {
        MMAP_CALLS += 1;
        Ok(THE_SEG.cast())
    }
}

#[kani::proof]
#[kani::stub(ShmWriter::is_usable_segment, stub_is_usable_segment)]
#[kani::stub(ShmWriter::wipe, stub_wipe)]
#[kani::stub(ShmWriter::mmap_segment_at, stub_mmap_segment_at)]
fn c04_new_takeover_or_wipe() {
    let mut seg = any_seg();
    let g0 = seg.hdr.generation.load(Ordering::Relaxed);
    let (m0, m1) = (seg.hdr.magic[0], seg.hdr.magic[1]);
    let size0 = seg.hdr.segsize.load(Ordering::Relaxed);
    let rec0 = seg.ceb;
    let probe_ok: bool = kani::any();
    let wipe_fails: bool = kani::any();
    unsafe {
        THE_SEG = &mut seg;
        PROBE_OK = probe_ok;
        WIPE_FAILS = wipe_fails;
    }
    let r = ShmWriter::new(Path::new("/p"));
    let wipes = unsafe { WIPE_CALLS };
    kani::assert((wipes == 1) == !probe_ok && wipes <= 1, "C04.new.wipe_iff_probe_failed");
    if wipes == 1 {
        kani::assert(unsafe { WIPE_SEGSIZE } == 72, "C16.new.recreated_file_is_72_bytes");
    }
    match r {
        Ok(w) => {
            let base: *mut u8 = (&mut seg as *mut Seg).cast();
            kani::assert(w.version as *mut u8 == unsafe { base.add(12) }, "C04.new.version_pointer_at_12");
            kani::assert(w.generation as *mut u8 == unsafe { base.add(14) }, "C04.new.generation_pointer_at_14");
            kani::assert(w.ceb as *mut u8 == unsafe { base.add(16) }, "C04.new.record_pointer_at_16");
            kani::assert(w.segsize == 72, "C04.new.maps_72_bytes");
            std::mem::forget(w);
            kani::assert(seg.hdr.version.load(Ordering::Relaxed) == 1, "C04.new.version_1_published");
            if probe_ok {
                // valid segment: taken over in place, never emptied or re-created
                kani::assert(seg.hdr.generation.load(Ordering::Relaxed) == g0, "C04.new.takeover_keeps_generation");
                kani::assert(ceb_eq(&seg.ceb, &rec0), "C04.new.takeover_keeps_record");
                kani::assert(seg.hdr.magic[0] == m0 && seg.hdr.magic[1] == m1 && seg.hdr.segsize.load(Ordering::Relaxed) == size0,
                             "C04.new.takeover_keeps_magic_and_size");
            } else {
                // unusable segment: repaired; not readable by new clients until the first publication
                kani::assert(seg.hdr.generation.load(Ordering::Relaxed) == 0, "C04.new.after_wipe_generation_0_until_first_write");
            }
        }
        Err(_) => {
            kani::assert(!probe_ok && wipe_fails, "C04.new.fails_only_if_repair_fails");
        }
    }
    kani::cover!(probe_ok, "C04.cover.takeover");
    kani::cover!(!probe_ok && !wipe_fails, "C04.cover.wipe");
}


// =================================================================================================
// C16 / C04: the usability probe that decides between takeover and wipe agrees with what a client's
// open would do -- the REAL is_usable_segment on the POSIX model of verif_read.rs / posix_model.c
// =================================================================================================
#[kani::proof]
#[kani::unwind(26)]
fn c16_usability_probe_agrees_with_client_open() {
    use crate::reader::verif_read::{le_u16, le_u32, MODEL_CONTENT, MODEL_MAX};
    use crate::reader::verif_read::{verif_bad_arg, verif_errno, verif_file, verif_file_len, verif_is_dir, verif_live_mappings,
                                    verif_missing, verif_mmap_fails, verif_open_fds, verif_fd};
    let content: [u8; MODEL_CONTENT] = kani::any();
    let len: usize = kani::any();
    kani::assume(len <= MODEL_MAX);
    let missing: bool = kani::any();
    let is_dir: bool = kani::any();
    let mmap_fails: bool = kani::any();
    unsafe {
        verif_file = content;
        verif_file_len = len as u64;
        verif_missing = missing as i32;
        verif_is_dir = is_dir as i32;
        verif_mmap_fails = mmap_fails as i32;
        verif_errno = 2;
        let fd: i32 = kani::any();
        kani::assume(0 <= fd && fd < 1024);
        verif_fd = fd;
    }
    let r = ShmWriter::is_usable_segment(Path::new("/p"));
    let has_header = len >= 16;
    let magic_ok = has_header && le_u32(&content, 0) == 0x414D5A4E && le_u32(&content, 4) == 0x43420200;
    let size = if has_header { le_u32(&content, 8) } else { 0 };
    let ver = if has_header { le_u16(&content, 12) } else { 0 };
    let gen = if has_header { le_u16(&content, 14) } else { 0 };
    let client_can_open = !missing && !is_dir && magic_ok && ver != 0 && gen != 0 && size >= 72 && !mmap_fails;
    kani::assert(r.is_ok() == client_can_open, "C16.probe.usable_iff_a_client_could_open_it");
    unsafe {
        kani::assert(verif_open_fds == 0 && verif_live_mappings == 0, "C16.probe.releases_descriptor_and_mapping");
        kani::assert(verif_bad_arg == 0, "C16.probe.uses_its_own_descriptor_and_mapping");
    }
    kani::cover!(client_can_open, "C16.cover.probe_usable");
    kani::cover!(!missing && !is_dir && magic_ok && ver != 0 && gen != 0 && size >= 16 && size < 72, "C16.cover.probe_header_only");
}

// =================================================================================================
// C16 / C04 end to end on a file model (posix_fs_model.c): the REAL ShmWriter::new -- including
// is_usable_segment, wipe (std::fs::File + byteorder) and mmap_segment_at (nix) -- on any
// pre-existing file, then the REAL write, then a REAL fresh ShmReader::new + snapshot.
// Only `fs::create_dir_all` is stubbed (directory creation is outside the one-file model).
// =================================================================================================
pub(crate) mod fsmodel {
    extern "C" {
        pub(crate) static mut fs_file: [u8; 4096];
        pub(crate) static mut fs_file_len: u64;
        pub(crate) static mut fs_exists: i32;
        pub(crate) static mut fs_open_fds: i32;
        pub(crate) static mut fs_live_mappings: i32;
        pub(crate) static mut fs_bad_arg: i32;
        pub(crate) static mut fs_creates: i32;
        pub(crate) static mut fs_fsyncs: i32;
    }
}

fn stub_create_dir_all<P: AsRef<Path>>(_p: P) -> std::io::Result<()> {
    Ok(())
}

fn ne_u32(b: &[u8; 4096], at: usize) -> u32 {
    u32::from_ne_bytes([b[at], b[at + 1], b[at + 2], b[at + 3]])
}
fn ne_u16(b: &[u8; 4096], at: usize) -> u16 {
    u16::from_ne_bytes([b[at], b[at + 1]])
}

/// `format!` on error paths is irrelevant to the contracts below and dominates CBMC's cost
fn stub_format(_args: std::fmt::Arguments<'_>) -> String {
    String::new()
}

/// `wipe` alone: whatever file was there (absent, or up to 96 arbitrary bytes), the re-created file
/// is exactly the documented 72 bytes: magic, declared size 72, version 0, generation 0, zero record.
#[kani::proof]
#[kani::unwind(12)]
#[kani::stub(std::fs::create_dir_all, stub_create_dir_all)]
#[kani::stub(std::fmt::format, stub_format)]
fn c16_wipe_lays_out_72_bytes() {
    use fsmodel::*;
    let exists: bool = kani::any();
    let len: usize = kani::any();
    kani::assume(len <= 96);
    let old: [u8; 96] = kani::any();
    unsafe {
        fs_exists = exists as i32;
        fs_file_len = if exists { len as u64 } else { 0 };
        // bytes beyond the end of the file are whatever was there: arbitrary too
        std::ptr::copy_nonoverlapping(old.as_ptr(), std::ptr::addr_of_mut!(fs_file).cast::<u8>(), 96);
    }
    let r = ShmWriter::wipe(Path::new("/p"), ShmWriter::segment_size());
    kani::assert(r.is_ok(), "C16.wipe.succeeds_whatever_the_file_contained");
    unsafe {
        kani::assert(fs_exists == 1 && fs_file_len == 72, "C16.wipe.file_is_exactly_72_bytes");
        kani::assert(ne_u32(&fs_file, 0) == 0x414D5A4E && ne_u32(&fs_file, 4) == 0x43420200, "C16.wipe.magic_first");
        kani::assert(ne_u32(&fs_file, 8) == 72, "C16.wipe.declared_size_72");
        kani::assert(ne_u16(&fs_file, 12) == 0 && ne_u16(&fs_file, 14) == 0, "C16.wipe.version_0_generation_0");
        let rec: [u8; 56] = std::ptr::read(std::ptr::addr_of!(fs_file).cast::<u8>().add(16).cast());
        kani::assert(rec == [0u8; 56], "C16.wipe.record_is_zero");
        kani::assert(fs_open_fds == 0 && fs_bad_arg == 0, "C16.wipe.descriptor_closed");
        kani::assert(fs_fsyncs >= 1, "C16.wipe.synced_to_disk");
    }
    kani::cover!(exists && len > 72, "C16.cover.wipe_longer_file");
    kani::cover!(!exists, "C16.cover.wipe_missing_file");
}

#[kani::proof]
#[kani::unwind(130)]
#[kani::stub(std::fs::create_dir_all, stub_create_dir_all)]
fn c16_new_on_any_file_end_to_end() {
    use fsmodel::*;
    // any pre-existing file: absent, or 0..=96 bytes of arbitrary header + record bytes
    let exists: bool = kani::any();
    let len: usize = kani::any();
    kani::assume(len <= 96);
    let head: [u8; 72] = kani::any();
    unsafe {
        fs_exists = exists as i32;
        fs_file_len = if exists { len as u64 } else { 0 };
        let mut i = 0;
        while i < 72 {
            fs_file[i] = if exists && i < len { head[i] } else { 0 };
            i += 1;
        }
    }
    let before: [u8; 4096] = unsafe { fs_file };
    let has_header = exists && len >= 16;
    let usable = has_header && ne_u32(&before, 0) == 0x414D5A4E && ne_u32(&before, 4) == 0x43420200
        && ne_u16(&before, 12) != 0 && ne_u16(&before, 14) != 0 && ne_u32(&before, 8) >= 72;

    let w = ShmWriter::new(Path::new("/p"));
    kani::assert(w.is_ok(), "C16.e2e.new_succeeds_on_any_file");
    let mut w = w.unwrap();
    let after: [u8; 4096] = unsafe { fs_file };
    unsafe {
        kani::assert(fs_bad_arg == 0, "C16.e2e.descriptors_and_mappings_used_consistently");
        kani::assert(fs_open_fds <= 1, "C16.e2e.no_descriptor_leak_beyond_the_writer_mapping_fd");
    }
    if usable {
        // (c) a valid segment is taken over in place: never emptied or re-created
        kani::assert(unsafe { fs_creates } == 0, "C04.e2e.valid_segment_not_recreated");
        let mut same = true;
        let mut i = 0;
        while i < 72 {
            if i != 12 && i != 13 && after[i] != before[i] {
                same = false;
            }
            i += 1;
        }
        kani::assert(same, "C04.e2e.takeover_keeps_every_byte_but_the_version");
        kani::assert(ne_u16(&after, 12) == 1, "C04.e2e.takeover_publishes_version_1");
    } else {
        // repaired: laid out as documented, 72 bytes, not yet readable
        kani::assert(unsafe { fs_file_len } == 72, "C16.e2e.recreated_file_is_72_bytes");
        kani::assert(ne_u32(&after, 0) == 0x414D5A4E && ne_u32(&after, 4) == 0x43420200, "C16.e2e.recreated_magic");
        kani::assert(ne_u32(&after, 8) == 72, "C16.e2e.recreated_declared_size_72");
        kani::assert(ne_u16(&after, 12) == 1 && ne_u16(&after, 14) == 0, "C16.e2e.recreated_version_1_generation_0");
        let mut zero = true;
        let mut i = 16;
        while i < 72 {
            if after[i] != 0 {
                zero = false;
            }
            i += 1;
        }
        kani::assert(zero, "C16.e2e.recreated_record_is_zero");
        kani::assert(unsafe { fs_fsyncs } >= 1, "C16.e2e.recreated_file_is_synced");
    }
    // first publication, then a brand-new client
    let rec = any_ceb();
    w.write(&rec);
    let path = std::ffi::CStr::from_bytes_with_nul(b"/p\0").unwrap();
    let r = ShmReader::new(path);
    kani::assert(r.is_ok(), "C16.e2e.client_can_open_after_first_publication");
    let mut r = r.unwrap();
    let got = match r.snapshot() {
        Ok(c) => Some(*c),
        Err(_) => None,
    };
    kani::assert(got.is_some(), "C16.e2e.client_snapshot_succeeds");
    kani::assert(ceb_eq(&got.unwrap(), &rec), "C16.e2e.client_reads_back_exactly_the_published_record");
    std::mem::forget(r);
    std::mem::forget(w);
    kani::cover!(usable, "C16.cover.e2e_takeover");
    kani::cover!(!exists, "C16.cover.e2e_missing_file");
    kani::cover!(exists && !usable && len >= 16, "C16.cover.e2e_repair");
}
