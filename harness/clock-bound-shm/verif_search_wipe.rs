// BOUNDED stand-in for the contract of `ShmWriter::wipe` / `ShmWriter::new` on real files (the std::fs
// code path is out of Kani's reach within budget: io::Error/format machinery, see DESIGN 3.7).
// Woven under cfg(verif_search) as a child module of `writer`; runs the REAL functions natively on
// the real file system for every pre-existing file length 0..=200 (plus "absent") x 4 fill patterns.
// Stated bound: those 804 + 1 files.  Never counted as proved.
use super::*;
use crate::reader::ShmReader;
use crate::{ClockErrorBound, ClockStatus};
use std::io::Read;

fn file_bytes(path: &Path) -> Vec<u8> {
    let mut v = Vec::new();
    std::fs::File::open(path).unwrap().read_to_end(&mut v).unwrap();
    v
}

fn valid_segment(declared: u32) -> Vec<u8> {
    let mut v = Vec::new();
    v.extend_from_slice(&SHM_MAGIC[0].to_ne_bytes());
    v.extend_from_slice(&SHM_MAGIC[1].to_ne_bytes());
    v.extend_from_slice(&declared.to_ne_bytes());
    v.extend_from_slice(&1u16.to_ne_bytes());
    v.extend_from_slice(&10u16.to_ne_bytes());
    v
}

fn check_layout(bytes: &[u8]) -> Vec<&'static str> {
    let mut bad = Vec::new();
    if bytes.len() != 72 {
        bad.push("C16.wipe.file_is_exactly_72_bytes");
        return bad;
    }
    if bytes[0..4] != SHM_MAGIC[0].to_ne_bytes() || bytes[4..8] != SHM_MAGIC[1].to_ne_bytes() {
        bad.push("C16.wipe.magic_first");
    }
    if bytes[8..12] != 72u32.to_ne_bytes() {
        bad.push("C16.wipe.declared_size_72");
    }
    if bytes[12..16] != [0u8; 4] {
        bad.push("C16.wipe.version_0_generation_0");
    }
    if bytes[16..72].iter().any(|b| *b != 0) {
        bad.push("C16.wipe.record_is_zero");
    }
    bad
}

#[test]
fn verif_search_wipe() {
    let targets: Vec<String> = std::env::var("VERIF_SEARCH_TARGETS").unwrap_or_default()
        .split(',').filter(|s| !s.is_empty()).map(|s| s.to_string()).collect();
    let replay = std::env::var("VERIF_REPLAY").ok();
    let dir = std::env::temp_dir().join(format!("verif_wipe_{}", std::process::id()));
    let _ = std::fs::remove_dir_all(&dir);
    std::fs::create_dir_all(&dir).unwrap();
    let path = dir.join("shm");
    let mut found: std::collections::BTreeMap<&'static str, String> = std::collections::BTreeMap::new();
    let mut evals = 0u64;
    let mut cases: Vec<(i64, u8)> = vec![(-1, 0)];
    for len in 0..=200i64 {
        for fill in 0..4u8 {
            cases.push((len, fill));
        }
    }
    if let Some(r) = &replay {
        let mut it = r.split_whitespace().map(|t| t.split_once('=').unwrap().1.parse::<i64>().unwrap());
        cases = vec![(it.next().unwrap(), it.next().unwrap() as u8)];
    }
    for (len, fill) in cases {
        let _ = std::fs::remove_file(&path);
        if len >= 0 {
            let mut content: Vec<u8> = match fill {
                0 => vec![0u8; len as usize],
                1 => vec![0xffu8; len as usize],
                2 => (0..len as usize).map(|i| (i * 37 + 11) as u8).collect(),
                _ => { let mut v = valid_segment(if len >= 16 { (len as u32).min(71) } else { 16 }); v.resize(len as usize, 0x5a); v }
            };
            content.truncate(len as usize);
            std::fs::write(&path, &content).unwrap();
        }
        evals += 1;
        let input = format!("len={} fill={}", len, fill);
        let mut bad: Vec<&'static str> = Vec::new();
        // (1) wipe alone
        match ShmWriter::wipe(&path, ShmWriter::segment_size()) {
            Ok(()) => bad.extend(check_layout(&file_bytes(&path))),
            Err(_) => bad.push("C16.wipe.succeeds_whatever_the_file_contained"),
        }
        // (2) the whole start-up on the same pre-existing content, then first publication and a new client
        let _ = std::fs::remove_file(&path);
        if len >= 0 {
            let content: Vec<u8> = match fill {
                0 => vec![0u8; len as usize],
                1 => vec![0xffu8; len as usize],
                2 => (0..len as usize).map(|i| (i * 37 + 11) as u8).collect(),
                _ => { let mut v = valid_segment(if len >= 16 { (len as u32).min(71) } else { 16 }); v.resize(len as usize, 0x5a); v.truncate(len as usize); v }
            };
            std::fs::write(&path, &content).unwrap();
        }
        match ShmWriter::new(&path) {
            Err(_) => bad.push("C16.e2e.new_succeeds_on_any_file"),
            Ok(mut w) => {
                let rec = ClockErrorBound::new(
                    libc::timespec { tv_sec: 7, tv_nsec: 8 }, libc::timespec { tv_sec: 1007, tv_nsec: 0 }, 123_456, 5_000, 0, ClockStatus::Synchronized);
                w.write(&rec);
                let cpath = std::ffi::CString::new(path.as_os_str().as_bytes()).unwrap();
                match ShmReader::new(cpath.as_c_str()) {
                    Err(_) => bad.push("C16.e2e.client_can_open_after_first_publication"),
                    Ok(mut r) => match r.snapshot() {
                        Ok(got) if *got == rec => (),
                        _ => bad.push("C16.e2e.client_reads_back_exactly_the_published_record"),
                    },
                }
                if file_bytes(&path).len() != 72 {
                    bad.push("C16.e2e.recreated_file_is_72_bytes");
                }
            }
        }
        for name in bad {
            if !targets.is_empty() && !targets.iter().any(|t| t == name) {
                continue;
            }
            if !found.contains_key(name) {
                println!("VERIF-FOUND obligation={} input: {}", name, input);
                found.insert(name, input.clone());
            }
        }
    }
    // (3) crash / restart histories through the public interface only: a segment left with generation g0
    // (odd = the previous daemon died mid-update) and an attached client; the restarted daemon's
    // publications must reach that client without reopening, in order, and the generation must stay even
    // and non-zero after every completed update (C04 a/b, C11), across the 16-bit wrap as well.
    if replay.is_none() {
        let cpath = std::ffi::CString::new(path.as_os_str().as_bytes()).unwrap();
        let starts: [(u16, u32); 10] = [(2, 12), (3, 12), (7, 12), (8, 12), (21, 12), (65533, 12), (65534, 12), (65535, 12), (32767, 12), (4, 70_000)];
        for (g0, n) in starts {
            let _ = std::fs::remove_file(&path);
            let mut content = valid_segment(72);
            content[14..16].copy_from_slice(&g0.to_ne_bytes());
            content.resize(72, 0);
            content[48..56].copy_from_slice(&777i64.to_ne_bytes()); // bound_nsec of the record left behind
            // an odd g0 means: the previous daemon had published generation g0 - 1 (which the attached client
            // has seen and cached) and then died between the two generation stores of its next update
            if g0 & 1 == 1 {
                content[14..16].copy_from_slice(&(g0 - 1).to_ne_bytes());
            }
            std::fs::write(&path, &content).unwrap();
            let mut attached = ShmReader::new(cpath.as_c_str()).unwrap();
            let _ = attached.snapshot();
            if g0 & 1 == 1 {
                use std::io::{Seek, SeekFrom, Write};
                let mut f = std::fs::OpenOptions::new().write(true).open(&path).unwrap();
                f.seek(SeekFrom::Start(14)).unwrap();
                f.write_all(&g0.to_ne_bytes()).unwrap();
            }
            let mut w = ShmWriter::new(&path).unwrap();
            for i in 1..=n {
                let rec = ClockErrorBound::new(libc::timespec { tv_sec: 1000 + i as i64, tv_nsec: 1 }, libc::timespec { tv_sec: 2000 + i as i64, tv_nsec: 0 },
                                               10_000 + i as i64, 5_000, 0, ClockStatus::Synchronized);
                w.write(&rec);
                evals += 1;
                let gen = u16::from_ne_bytes(file_bytes(&path)[14..16].try_into().unwrap());
                let input = format!("len=-2 fill={}", g0);
                if (gen == 0 || gen & 1 == 1) && !found.contains_key("C11.e2e.generation_even_nonzero_after_every_write") {
                    println!("VERIF-FOUND obligation=C11.e2e.generation_even_nonzero_after_every_write input: {}", input);
                    println!("VERIF-NOTE segment left at generation {}, restarted writer, after write #{} the generation is {}", g0, i, gen);
                    found.insert("C11.e2e.generation_even_nonzero_after_every_write", input.clone());
                }
                let seen = attached.snapshot().ok().copied();
                if seen != Some(rec) && !found.contains_key("C04.e2e.attached_reader_follows_restarted_writer") {
                    println!("VERIF-FOUND obligation=C04.e2e.attached_reader_follows_restarted_writer input: {}", input);
                    println!("VERIF-NOTE segment left at generation {}, restarted writer, after write #{} (generation {}) the attached reader returns {:?}", g0, i, gen, seen);
                    found.insert("C04.e2e.attached_reader_follows_restarted_writer", input);
                }
            }
        }
    }
    let _ = std::fs::remove_dir_all(&dir);
    if replay.is_some() {
        println!("VERIF-REPLAY failing clauses: {:?}", found.keys().collect::<Vec<_>>());
    } else {
        println!("VERIF-SEARCH evaluations={} found={}", evals, found.len());
    }
}
