/* A small model of the POSIX calls made by clock-bound-shm's reader (open/read/fstat/mmap/munmap/close,
 * errno), linked into the Kani run with `-Z c-ffi --c-lib`.  The real Rust code, including its FFI
 * calls through the libc crate, runs against this model.  ASSUMED contract on the OS (listed in the
 * evidence): one file of verif_file_len (0..96) bytes; it may be missing (open fails), be a directory
 * (read fails) or fail to map; a successful mmap yields one page of memory showing the file's (modelled) bytes followed by zeros; the mapping of an EMPTY file has no accessible page (any access = SIGBUS, modelled as an out-of-bounds pointer).  Ghost counters record descriptor / mapping ownership. */
#include <stddef.h>
#include <sys/stat.h>

#define MODEL_MAX 96   /* maximum file length */
#define MODEL_CONTENT 24 /* bytes of content that are modelled; the rest of the file reads as 0 */

int verif_fd = 3;   /* the descriptor open() hands out: any value >= 0 chosen by the harness (0 is a legal descriptor) */
#define MODEL_FD verif_fd
unsigned char verif_file[MODEL_CONTENT];
unsigned long verif_file_len = 0;
int verif_missing = 0;
int verif_is_dir = 0;
int verif_mmap_fails = 0;
int verif_errno = 0;
int verif_open_fds = 0;
int verif_live_mappings = 0;
unsigned long verif_mapped_len = 0;
int verif_bad_arg = 0;
unsigned char verif_page[4096];
unsigned char verif_no_page[1];   /* mapping of an EMPTY file: every access faults (SIGBUS); modelled as out of bounds */

int *__errno_location(void) { return &verif_errno; }

int open(const char *path, int flags, ...) {
  (void)path; (void)flags;
  if (verif_missing) return -1;
  verif_open_fds++;
  return MODEL_FD;
}

/* fstat: length and kind of the one modelled file (not called by the code as it stands; modelled so that a
 * change that starts using it is decided on the model instead of ending "undecided") */
int fstat(int fd, struct stat *st) {
  if (fd != MODEL_FD) verif_bad_arg = 1;
  __builtin_memset(st, 0, sizeof *st);
  st->st_size = (long)verif_file_len;
  st->st_mode = verif_is_dir ? S_IFDIR : S_IFREG;
  return 0;
}

int close(int fd) {
  if (fd != MODEL_FD) verif_bad_arg = 1;
  verif_open_fds--;
  return 0;
}

long read(int fd, void *buf, unsigned long count) {
  if (fd != MODEL_FD) verif_bad_arg = 1;
  if (verif_is_dir) return -1;
  unsigned long n = count < verif_file_len ? count : verif_file_len;
  unsigned char *dst = (unsigned char *)buf;
  for (unsigned long i = 0; i < n; i++) dst[i] = i < MODEL_CONTENT ? verif_file[i] : 0;
  return (long)n;
}

void *mmap(void *addr, unsigned long len, int prot, int flags, int fd, long off) {
  (void)addr; (void)prot; (void)flags; (void)off;
  if (fd != MODEL_FD) verif_bad_arg = 1;
  if (verif_mmap_fails || len == 0) return (void *)(~0UL); /* MAP_FAILED; `(void *)-1` does not compare equal to Rust's !0 under CBMC */
  verif_live_mappings++;
  verif_mapped_len = len;
  if (verif_file_len == 0) return (void *)(verif_no_page + 1);
  /* MAP_SHARED: the mapping shows the file's bytes (the modelled ones; the rest reads as 0) */
  for (unsigned long i = 0; i < MODEL_CONTENT; i++) verif_page[i] = i < verif_file_len ? verif_file[i] : 0;
  return (void *)verif_page;
}

int munmap(void *addr, unsigned long len) {
  if ((addr != (void *)verif_page && addr != (void *)(verif_no_page + 1)) || len != verif_mapped_len) verif_bad_arg = 1;
  verif_live_mappings--;
  return 0;
}
