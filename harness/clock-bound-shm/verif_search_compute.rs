// Native failing-input search and replay for the Verus contract of `compute_bound_at`.
//
// Verus decides the obligations but returns no model.  When a named clause fails, this module is
// woven into the scratch copy (cfg(verif_search)) and evaluates the SAME clauses on the real,
// natively compiled function over boundary-value combinations plus seeded random inputs, to obtain a
// concrete failing input for the replay file.  It is never the deciding step.
//
//   VERIF_SEARCH_TARGETS = comma separated obligation names to look for ("" = any)
//   VERIF_REPLAY         = a JSON-ish input line previously printed by this module: evaluate only it
//   VERIF_SEED           = seed of the random part
use crate::*;

const NS: i128 = 1_000_000_000;

fn ns(t: &libc::timespec) -> i128 {
    t.tv_sec as i128 * NS + t.tv_nsec as i128
}

fn ts(n: i128) -> libc::timespec {
    libc::timespec { tv_sec: n.div_euclid(NS) as i64, tv_nsec: n.rem_euclid(NS) as i64 }
}

fn status_law(stored: ClockStatus, mono: i128, as_of: i128, void_after: i128) -> ClockStatus {
    match stored {
        ClockStatus::Unknown => ClockStatus::Unknown,
        s => {
            if mono < as_of + 5 * NS {
                s
            } else if mono < void_after {
                ClockStatus::FreeRunning
            } else {
                ClockStatus::Unknown
            }
        }
    }
}

/// Evaluate every clause of the contract (same formulas as verus/compute.rs.tmpl); returns the names
/// of the clauses that are false for this input.
fn failing_clauses(c: &ClockErrorBound, real: libc::timespec, mono: libc::timespec) -> Vec<&'static str> {
    let mut bad = Vec::new();
    let res = std::panic::catch_unwind(|| c.compute_bound_at(real, mono));
    let res = match res {
        Ok(r) => r,
        Err(_) => {
            bad.push("C14.compute.no_panic");
            return bad;
        }
    };
    let (m, a, v) = (ns(&mono), ns(&c.as_of), ns(&c.void_after));
    let drift = c.max_drift_ppb as i128;
    if drift >= NS && !matches!(res, Err(ShmError::SegmentMalformed)) {
        bad.push("C14.compute.malformed");
    }
    if drift < NS && m <= a - 1000 && !matches!(res, Err(ShmError::CausalityBreach)) {
        bad.push("C14.compute.causality");
    }
    if drift < NS && m > a - 1000 && res.is_err() {
        bad.push("C14.compute.ok_otherwise");
    }
    if let Ok((e, l, st)) = res {
        let up = ns(&l) - ns(&real);
        let dn = ns(&real) - ns(&e);
        let half = up;
        let el = if m >= a { m - a } else { 0 };
        let ef = (el * drift).div_euclid(NS);
        let slack = 1 + ef / (1i128 << 50);
        let b = c.bound_nsec as i128;
        if a - 1000 < m && m < a && half != b {
            bad.push("C14.compute.blur_is_zero_age");
        }
        if up != dn {
            bad.push("C05.compute.symmetric");
        }
        if !(0 <= e.tv_nsec && e.tv_nsec < 1_000_000_000 && 0 <= l.tv_nsec && l.tv_nsec < 1_000_000_000) {
            bad.push("C05.compute.normalised");
        }
        if b >= 0 && ns(&e) > ns(&l) {
            bad.push("C05.compute.ordered");
        }
        if half < b + ef - slack {
            bad.push("C05.compute.never_less");
            bad.push("C05.compute.exact");
        }
        if half > b + ef + slack {
            bad.push("C05.compute.not_more");
            bad.push("C05.compute.exact");
        }
        if (el == 0 || drift == 0) && half != b {
            bad.push("C05.compute.zero_age");
            bad.push("C05.compute.exact");
        }
        if half < b {
            bad.push("C05.compute.never_below_stored_bound");
        }
        let law = status_law(c.clock_status, m, a, v);
        if st as i32 != law as i32 {
            bad.push("C06.compute.status_law");
        }
        if st == ClockStatus::Synchronized && !(c.clock_status == ClockStatus::Synchronized && m < a + 5 * NS) {
            bad.push("C06.compute.sync_only_if");
        }
        if st == ClockStatus::FreeRunning && v >= a + 5 * NS && !(c.clock_status != ClockStatus::Unknown && m < v) {
            bad.push("C06.compute.free_only_if");
        }
        if c.clock_status == ClockStatus::Unknown && st != ClockStatus::Unknown {
            bad.push("C06.compute.unknown_sticky");
        }
        if v >= a + 5 * NS && m >= v && st != ClockStatus::Unknown {
            bad.push("C06.compute.void_is_unknown");
        }
        if m < a + 5 * NS && st as i32 != c.clock_status as i32 {
            bad.push("C06.compute.passthrough");
        }
        if c.clock_status == ClockStatus::Synchronized && a + 5 * NS <= m && m < v && st != ClockStatus::FreeRunning {
            bad.push("C06.compute.decay");
        }
    }
    bad
}

fn status_of(i: u8) -> ClockStatus {
    match i % 3 {
        0 => ClockStatus::Unknown,
        1 => ClockStatus::Synchronized,
        _ => ClockStatus::FreeRunning,
    }
}

fn fmt_input(c: &ClockErrorBound, real: &libc::timespec, mono: &libc::timespec) -> String {
    format!(
        "as_of={}:{} void_after={}:{} bound_nsec={} max_drift_ppb={} reserved1={} clock_status={} real={}:{} mono={}:{}",
        c.as_of.tv_sec, c.as_of.tv_nsec, c.void_after.tv_sec, c.void_after.tv_nsec, c.bound_nsec,
        c.max_drift_ppb, c.reserved1, c.clock_status as i32, real.tv_sec, real.tv_nsec, mono.tv_sec, mono.tv_nsec
    )
}

fn parse_input(s: &str) -> (ClockErrorBound, libc::timespec, libc::timespec) {
    let mut kv = std::collections::HashMap::new();
    for tok in s.split_whitespace() {
        if let Some((k, v)) = tok.split_once('=') {
            kv.insert(k.to_string(), v.to_string());
        }
    }
    let t = |k: &str| {
        let (a, b) = kv[k].split_once(':').unwrap();
        libc::timespec { tv_sec: a.parse().unwrap(), tv_nsec: b.parse().unwrap() }
    };
    let c = ClockErrorBound {
        as_of: t("as_of"),
        void_after: t("void_after"),
        bound_nsec: kv["bound_nsec"].parse().unwrap(),
        max_drift_ppb: kv["max_drift_ppb"].parse().unwrap(),
        reserved1: kv["reserved1"].parse().unwrap(),
        clock_status: status_of(kv["clock_status"].parse::<u8>().unwrap()),
    };
    (c, t("real"), t("mono"))
}

struct Rng(u64);
impl Rng {
    fn next(&mut self) -> u64 {
        // xorshift64*
        self.0 ^= self.0 >> 12;
        self.0 ^= self.0 << 25;
        self.0 ^= self.0 >> 27;
        self.0.wrapping_mul(0x2545F4914F6CDD1D)
    }
    fn range(&mut self, lo: i128, hi: i128) -> i128 {
        lo + (self.next() as i128).rem_euclid(hi - lo + 1)
    }
}

fn report(found: &mut std::collections::BTreeMap<&'static str, String>, targets: &[String],
          c: &ClockErrorBound, real: libc::timespec, mono: libc::timespec) {
    for name in failing_clauses(c, real, mono) {
        if !targets.is_empty() && !targets.iter().any(|t| t == name) {
            continue;
        }
        if !found.contains_key(name) {
            let line = fmt_input(c, &real, &mono);
            println!("VERIF-FOUND obligation={} input: {}", name, line);
            found.insert(name, line);
        }
    }
}

#[test]
fn verif_search_compute() {
    std::panic::set_hook(Box::new(|_| {}));
    let targets: Vec<String> = std::env::var("VERIF_SEARCH_TARGETS").unwrap_or_default()
        .split(',').filter(|s| !s.is_empty()).map(|s| s.to_string()).collect();
    let mut found = std::collections::BTreeMap::new();
    if let Ok(line) = std::env::var("VERIF_REPLAY") {
        let (c, real, mono) = parse_input(&line);
        let bad = failing_clauses(&c, real, mono);
        println!("VERIF-REPLAY input: {}", fmt_input(&c, &real, &mono));
        println!("VERIF-REPLAY result of the real compute_bound_at: {:?}",
                 std::panic::catch_unwind(|| c.compute_bound_at(real, mono)).map_err(|_| "panic"));
        for name in &bad {
            println!("VERIF-FOUND obligation={} input: {}", name, line);
        }
        println!("VERIF-REPLAY failing clauses: {:?}", bad);
        return;
    }
    let lim: i128 = (1i128 << 31) * NS; // +/- 68 years
    let as_of_s: [i64; 6] = [0, 1, 1000, (1i64 << 31) - 2000, -5, -(1i64 << 31) + 10];
    let nsecs: [i64; 5] = [0, 1, 999, 500_000_000, 999_999_999];
    let va_deltas: [i128; 9] = [-1, 0, 1, 5 * NS - 1, 5 * NS, 5 * NS + 1, 6 * NS, 1000 * NS, 1000 * NS - 999_999_999];
    let mono_deltas: [i128; 22] = [-2000, -1001, -1000, -999, -100, -1, 0, 1, 999, NS - 1, NS, 2 * NS + 500_000_000,
        5 * NS - 1, 5 * NS, 5 * NS + 1, 6 * NS - 1, 6 * NS, 6 * NS + 1, 999 * NS, 1000 * NS, 3600 * NS, 86400 * 30 * NS];
    let reals: [libc::timespec; 3] = [
        libc::timespec { tv_sec: 0, tv_nsec: 0 },
        libc::timespec { tv_sec: 1_700_000_000, tv_nsec: 123_456_789 },
        libc::timespec { tv_sec: -1000, tv_nsec: 999_999_999 },
    ];
    let bounds: [i64; 5] = [0, 1, 10_000, 1 << 40, (1 << 60) - 1];
    let drifts: [u32; 8] = [0, 1, 999, 1000, 50_000, 999_999_999, 1_000_000_000, u32::MAX];
    let in_range = |n: i128| -lim <= n && n <= lim + NS - 1;
    let mut evals: u64 = 0;
    for &s in &as_of_s {
        for &n in &nsecs {
            let as_of = libc::timespec { tv_sec: s, tv_nsec: n };
            let a = ns(&as_of);
            for &vd in &va_deltas {
                if !in_range(a + vd) { continue; }
                let void_after = ts(a + vd);
                for &md in &mono_deltas {
                    for extra in [0i128, vd - 1, vd, vd + 1] {
                        let m = if extra == 0 { a + md } else { a + extra };
                        if extra != 0 && md != 0 { continue; }
                        if !in_range(m) { continue; }
                        let mono = ts(m);
                        for real in &reals {
                            for &b in &bounds {
                                for &d in &drifts {
                                    for st in 0..3u8 {
                                        let c = ClockErrorBound { as_of, void_after, bound_nsec: b, max_drift_ppb: d,
                                            reserved1: 0, clock_status: status_of(st) };
                                        evals += 1;
                                        report(&mut found, &targets, &c, *real, mono);
                                    }
                                }
                            }
                        }
                    }
                }
            }
        }
    }
    // seeded random part
    let seed: u64 = std::env::var("VERIF_SEED").ok().and_then(|s| s.parse().ok()).unwrap_or(0);
    let mut r = Rng(seed.wrapping_mul(0x9E3779B97F4A7C15) | 1);
    for _ in 0..400_000u32 {
        let a = r.range(-lim, lim);
        let va = (a + r.range(-10 * NS, 2000 * NS)).clamp(-lim, lim);
        let m = match r.next() % 4 {
            0 => a + r.range(-3000, 3000),
            1 => a + r.range(0, 12 * NS),
            2 => va + r.range(-3, 3),
            _ => a + r.range(0, 86400 * 365 * NS),
        }.clamp(-lim, lim);
        let c = ClockErrorBound {
            as_of: ts(a), void_after: ts(va), bound_nsec: r.range(0, (1 << 60) - 1) as i64 >> (r.next() % 60),
            max_drift_ppb: if r.next() % 8 == 0 { r.next() as u32 } else { (r.next() % 1_000_000_000) as u32 >> (r.next() % 30) },
            reserved1: 0, clock_status: status_of((r.next() % 3) as u8),
        };
        evals += 1;
        report(&mut found, &targets, &c, ts(r.range(-lim, lim)), ts(m));
    }
    println!("VERIF-SEARCH evaluations={} found={}", evals, found.len());
}
