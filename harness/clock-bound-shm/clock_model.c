/* model of clock_gettime(2) for the harness of clock_gettime_safe: records the clock id, fills the
 * buffer with a recognisable value or fails; linked with -Z c-ffi --c-lib */
struct verif_timespec { long tv_sec; long tv_nsec; };
int verif_clock_calls = 0;
int verif_clock_id = -1;
int verif_clock_ret = 0;
int verif_clock_errno = 0;
long verif_clock_sec = 0, verif_clock_nsec = 0;
int *__errno_location(void) { return &verif_clock_errno; }
int clock_gettime(int clk, struct verif_timespec *tp) {
  verif_clock_calls++;
  verif_clock_id = clk;
  if (verif_clock_ret < 0) return verif_clock_ret;
  tp->tv_sec = verif_clock_sec;
  tp->tv_nsec = verif_clock_nsec;
  return verif_clock_ret;
}
