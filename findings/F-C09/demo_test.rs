// Demonstration of F-C09 on the real code (append inside `mod t_shm_writer` of
// clock-bound-d/src/shm_writer.rs and run `cargo test -p clock-bound-d f_c09`).
// A freshly started daemon that receives an *unsynchronised* chrony report (leap status 3, what
// chronyd answers right after its own start) publishes FreeRunning with the placeholder bound 0 /
// as_of 0 / void_after 1000 s; a client at machine uptime < 1000 s then trusts an interval of only
// drift * uptime although nothing was ever measured.
    #[test]
    fn f_c09_no_trust_before_first_measurement() {
        let (ctx, _) = setup_context();
        let storage = Rc::new(RefCell::new(VecDeque::new()));
        let mock_writer = MockWriter::new(storage.clone());
        let updater = ShmUpdater::new(mock_writer, 1000);
        let mut tracking = build_tracking();
        tracking.leap_status = 3; // chronyd: not synchronised
        let as_of = libc::timespec { tv_sec: 120, tv_nsec: 0 };
        let _ = ctx.dbox.send(&ChannelId::ShmWriter, Message::ClockErrorBoundData((tracking, 0, as_of)));
        let _ = ctx.dbox.send(&ChannelId::ShmWriter, Message::ChronyNotRespondingGracePeriod);
        let _ = ctx.dbox.send(&ChannelId::ShmWriter, Message::ThreadAbort);
        process_messages(ctx, updater);
        let expected_unknown = ClockErrorBound::new(
            libc::timespec { tv_sec: 0, tv_nsec: 0 },
            libc::timespec { tv_sec: 1000, tv_nsec: 0 },
            0, 1000, 0, ClockStatus::Unknown);
        for _ in 0..2 {
            let ceb = storage.borrow_mut().pop_front().unwrap();
            assert_eq!(ceb, expected_unknown, "a status other than Unknown was published with the placeholder bound");
        }
    }
