// Demonstration of F-C07 on the real code (append inside `mod t_shm_writer` of
// clock-bound-d/src/shm_writer.rs; `cargo test -p clock-bound-d f_c07`).
// Same report as the repository's own test_write_correct_ceb but with the system clock 7 ms *ahead*
// (negative current_correction): the published bound must still be |offset| + dispersion + delay/2
// = 7 + 20 + 50 ms = 77 000 001 ns (ceil); before the fix it is 63 000 001 ns, i.e. 14 ms too small.
    #[test]
    fn f_c07_negative_offset_counts_with_its_magnitude() {
        let mut tracking = build_tracking();
        tracking.current_correction = (-0.007).into();
        let (bound, _status) = extract_bound_from_tracking(tracking);
        assert!(bound >= 77_000_000, "published bound {} ns is smaller than |offset| + dispersion + delay/2", bound);
    }
