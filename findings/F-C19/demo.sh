#!/bin/sh
# Demonstration of F-C19 on the real release binary (before the fix: prints 704; after: the daemon refuses to start)
cd /repo && cargo build --offline --release -p clock-bound-d >/dev/null 2>&1
rm -rf /var/run/clockbound
timeout 4 ./target/release/clockbound --max-drift-rate 4294968; echo "exit=$?"
python3 - <<'PY'
import struct, os
p='/var/run/clockbound/shm'
print('published max_drift_ppb =', struct.unpack_from('<I', open(p,'rb').read(), 56)[0]) if os.path.exists(p) else print('no segment published (daemon refused to start)')
PY
