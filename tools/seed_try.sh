#!/bin/bash
# usage: seed_try.sh <patch.diff> <tag> <prop>... : run the checks against a scratch worktree of /repo with
# the patch applied (VERIF_REPO), without touching /repo; evidence/replays go to /tmp/try-<tag>-out/
patch="$1"; tag="$2"; shift 2
wt="/tmp/try-$tag"; out="/tmp/try-$tag-out"
git -C /repo worktree remove --force "$wt" 2>/dev/null; rm -rf "$wt" "$out"; mkdir -p "$out"
git -C /repo worktree add -q --detach "$wt" HEAD || exit 2
git -C "$wt" apply "$patch" || { echo "patch does not apply"; git -C /repo worktree remove --force "$wt"; exit 3; }
cd "$(dirname "$0")/.." || exit 2
for p in "$@"; do
  s=$(date +%s)
  o=$(VERIF_REPO="$wt" VERIF_EVIDENCE_DIR="$out/evidence" VERIF_REPLAY_DIR="$out/replays" ./check "$p" 2>&1); rc=$?
  e=$(date +%s)
  echo "### $tag: ./check $p -> exit $rc ($((e-s)) s)"
  echo "$o" | grep -E "^(VIOLATION|UNDECIDED|KNOWN-FINDING|  failed|\[)"
done
git -C /repo worktree remove --force "$wt"
