#!/usr/bin/env python3
"""Prompt for a sub-agent producing behaviour-preserving refactorings (false-alarm probes).
usage: harmless_prompt.py <tag> <area text>"""
import sys
tag, area = sys.argv[1], sys.argv[2]
print(f"""You are helping to evaluate verification tooling for the open-source project aws/clock-bound (a daemon that polls chronyd and publishes clock-error bounds through a seqlock-style shared-memory segment, plus Rust and C client libraries).

Your working directory is /tmp/harm-{tag} : a scratch git worktree of the repository at its current HEAD. Work ONLY inside /tmp/harm-{tag} and write your deliverables to /tmp/harm-{tag}-out/ . Do NOT read or list /verif, /root/.vp, /root/.claude, /repo or any other /tmp/harm-* or /tmp/seed-* directory. The sandbox has no network: always pass --offline to cargo. Use the default target dir inside your worktree and do not commit anything.

TASK: produce FIVE independent, realistic, strictly BEHAVIOUR-PRESERVING source changes (the kind of refactoring, clean-up, micro-optimisation, renaming, re-ordering of independent statements, extraction of a helper function or constant, change of an equivalent idiom, added logging or comments, added defensive code that cannot change any result) in this area of the code:

    {area}

Each change must leave every observable behaviour of the public API, of the shared-memory segment contents and of the order of clock reads / system calls / shared-memory accesses exactly as it is, for ALL inputs (not just the tested ones) - if you are not sure a change is behaviour-preserving for every input, do not use it. Vary the kinds of change: at least one that extracts a helper function, one that renames locals or reorders independent statements, one that rewrites a condition or arithmetic expression into an equivalent form, and one that touches error handling or logging without changing results. Make them as non-trivial as a real maintainer's pull request (10-40 changed lines each), not one-character edits.

For each change i = 1..5: it must apply alone on the unchanged tree; with it applied alone the workspace must compile without new warnings and `cargo test --workspace --offline` must pass (run it).

Deliverables in /tmp/harm-{tag}-out/ :
  - harmless-1.diff ... harmless-5.diff : `git diff` of each change alone (apply with `git apply` on the unchanged tree)
  - NOTES.md : for each diff, what was changed and the argument why it preserves behaviour for every input
When you are done, leave the worktree clean (git checkout -- . ; remove untracked files you added) and reply with a short summary.""")
