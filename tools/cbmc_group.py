#!/usr/bin/env python3
"""CBMC obligation group: static layout obligations on the real C header."""
import os
import re
import shutil
import tempfile

import vlib
import layout_gen
from vlib import Undecided


def run(prop, grp, tier, obligations, undecided, failures, checker_cmds, ev_extra):
    hdr_dir = os.path.join(vlib.REPO, "clock-bound-ffi", "include")
    if not os.path.exists(os.path.join(hdr_dir, "clockbound.h")):
        raise Undecided("cbmc", "clockbound.h not found")
    d = tempfile.mkdtemp(prefix=f"verif-{prop}-cbmc-", dir=vlib.SCRATCH_ROOT)
    try:
        cfile = os.path.join(d, "header_check.c")
        names = layout_gen.gen_header_check(cfile, hdr_dir)
        cmd = ["cbmc", cfile, "-I", hdr_dir, "--function", "check", "--arch", "x86_64", "--os", "linux"]
        rc, out, to, secs = vlib.run(cmd, timeout=300)
        checker_cmds.append("cbmc <generated>/header_check.c -I /repo/clock-bound-ffi/include --function check --arch x86_64 --os linux")
        if to or ("VERIFICATION SUCCESSFUL" not in out and "VERIFICATION FAILED" not in out):
            for n in names:
                obligations.append({"name": n, "engine": "cbmc", "result": "undecided", "reason": "cbmc produced no verdict"})
            undecided.append({"obligation": "cbmc:header", "reason": "timeout" if to else "cbmc produced no verdict (parse error in the header?)",
                              "detail": out[-2000:]})
            return
        bad = {}
        for m in re.finditer(r"\[[^\]]*\] line \d+ ([^:]+): (SUCCESS|FAILURE)", out):
            if m.group(2) == "FAILURE":
                bad[m.group(1).strip()] = True
        for n in names:
            obligations.append({"name": n, "engine": "cbmc", "backend": "cbmc-6.11 (constant folding / minisat)",
                                "result": "failed" if n in bad else "discharged", "solver_s": round(secs / max(1, len(names)), 4),
                                "completeness": "complete"})
        if bad:
            failures.append({"prop": prop, "group": grp, "harness": {"name": "header_check", "replayable": False},
                             "failed": sorted(bad), "obligations": sorted(bad), "cbmc": {"failed": sorted(bad), "output": out[-2000:]},
                             "ws": "done", "found_input": True})
    finally:
        shutil.rmtree(d, ignore_errors=True)
