#!/usr/bin/env python3
"""Generate the layout obligations of C17 from spec/layout.json: Rust (Kani) asserts for the
#[repr(C)] types and C (CBMC) asserts for clockbound.h -- the same numbers on both sides."""
import json
import os

from vlib import VERIF


def table():
    return json.load(open(os.path.join(VERIF, "spec", "layout.json")))


def rust_struct_asserts(ty, spec, prefix):
    out = [f'    kani::assert(std::mem::size_of::<{ty}>() == {spec["size"]}, "{prefix}.{ty}.size");',
           f'    kani::assert(std::mem::align_of::<{ty}>() == {spec["align"]}, "{prefix}.{ty}.align");']
    for f, (off, width) in spec["fields"].items():
        out.append(f'    kani::assert(std::mem::offset_of!({ty}, {f}) == {off}, "{prefix}.{ty}.{f}.offset");')
    return out


def field_width_asserts(ty, spec, prefix, field_types):
    out = []
    for f, (off, width) in spec["fields"].items():
        t = field_types.get(f)
        if t:
            out.append(f'    kani::assert(std::mem::size_of::<{t}>() == {width}, "{prefix}.{ty}.{f}.width");')
    return out


def gen_shm(ws):
    t = table()["segment"]
    lines = ["// GENERATED from /verif/spec/layout.json by tools/layout_gen.py -- C17 layout obligations (segment side)",
             "use crate::*;", "", "#[kani::proof]", "fn c17_segment_layout() {"]
    lines += rust_struct_asserts("ClockErrorBound", t["ClockErrorBound"], "C17.layout")
    lines += field_width_asserts("ClockErrorBound", t["ClockErrorBound"], "C17.layout",
                                 {"as_of": "libc::timespec", "void_after": "libc::timespec", "bound_nsec": "i64",
                                  "max_drift_ppb": "u32", "reserved1": "u32", "clock_status": "ClockStatus"})
    for name, val in t["ClockStatus"].items():
        lines.append(f'    kani::assert(ClockStatus::{name} as i32 == {val}, "C17.layout.ClockStatus.{name}");')
    lines.append('    kani::assert(std::mem::offset_of!(libc::timespec, tv_sec) == 0 && std::mem::offset_of!(libc::timespec, tv_nsec) == 8, "C17.layout.timespec.sec_then_nsec");')
    lines.append('    kani::assert(std::mem::size_of::<i64>() == std::mem::size_of::<libc::time_t>(), "C17.layout.timespec.i64_fields");')
    lines.append(f'    kani::assert(16 + std::mem::size_of::<ClockErrorBound>() + 0 <= {t["total"]}, "C17.layout.total_72_covers_record");')
    lines.append('    kani::cover!(true, "C17.cover.segment_layout_end");')
    lines.append("}")
    # stored bytes: the record is written with a plain ptr::write of the repr(C) struct => native endianness
    lines += ["", "#[kani::proof]", "fn c17_status_encoding_in_memory() {",
              "    let s: u8 = kani::any();", "    kani::assume(s < 3);",
              "    let st = match s { 0 => ClockStatus::Unknown, 1 => ClockStatus::Synchronized, _ => ClockStatus::FreeRunning };",
              "    let c = ClockErrorBound::new(libc::timespec { tv_sec: kani::any(), tv_nsec: kani::any() }, libc::timespec { tv_sec: kani::any(), tv_nsec: kani::any() }, kani::any(), kani::any(), kani::any(), st);",
              "    let bytes: [u8; 56] = unsafe { std::mem::transmute(c) };",
              "    let word = i32::from_ne_bytes([bytes[48], bytes[49], bytes[50], bytes[51]]);",
              '    kani::assert(word == s as i32, "C17.layout.status_word_at_48_is_0_1_2");',
              "    let b = i64::from_ne_bytes([bytes[32], bytes[33], bytes[34], bytes[35], bytes[36], bytes[37], bytes[38], bytes[39]]);",
              '    kani::assert(b == c.bound_nsec, "C17.layout.bound_at_32_native_endian");',
              "    let d = u32::from_ne_bytes([bytes[40], bytes[41], bytes[42], bytes[43]]);",
              '    kani::assert(d == c.max_drift_ppb, "C17.layout.drift_at_40_native_endian");',
              "    let sec = i64::from_ne_bytes([bytes[0], bytes[1], bytes[2], bytes[3], bytes[4], bytes[5], bytes[6], bytes[7]]);",
              '    kani::assert(sec == c.as_of.tv_sec, "C17.layout.as_of_sec_at_0_native_endian");',
              '    kani::cover!(s == 2, "C17.cover.free_running");', "}"]
    lines += ["", "/// ClockErrorBound::new stores its six arguments verbatim (no clamping, no reordering): every",
              "/// other crate's oracle, and the daemon itself, go through this constructor.",
              "#[kani::proof]", "fn c17_record_constructor_stores_arguments_verbatim() {",
              "    let (a, b, c, d): (i64, i64, i64, i64) = (kani::any(), kani::any(), kani::any(), kani::any());",
              "    let (bound, drift, res): (i64, u32, u32) = (kani::any(), kani::any(), kani::any());",
              "    let s: u8 = kani::any();", "    kani::assume(s < 3);",
              "    let st = match s { 0 => ClockStatus::Unknown, 1 => ClockStatus::Synchronized, _ => ClockStatus::FreeRunning };",
              "    let r = ClockErrorBound::new(libc::timespec { tv_sec: a, tv_nsec: b }, libc::timespec { tv_sec: c, tv_nsec: d }, bound, drift, res, st);",
              '    kani::assert(r.as_of.tv_sec == a && r.as_of.tv_nsec == b, "C17.record.as_of_verbatim");',
              '    kani::assert(r.void_after.tv_sec == c && r.void_after.tv_nsec == d, "C17.record.void_after_verbatim");',
              '    kani::assert(r.bound_nsec == bound, "C17.record.bound_verbatim");',
              '    kani::assert(r.max_drift_ppb == drift, "C19.record.drift_rate_stored_verbatim");',
              '    kani::assert(r.reserved1 == res && r.clock_status as i32 == s as i32, "C17.record.reserved_and_status_verbatim");',
              "    let z = ClockErrorBound::default();",
              '    kani::assert(z.bound_nsec == 0 && z.max_drift_ppb == 0 && z.clock_status as i32 == 0 && z.as_of.tv_sec == 0 && z.void_after.tv_sec == 0, "C17.record.default_is_all_zero");',
              '    kani::cover!(drift >= 1_000_000_000, "C19.cover.large_drift");', "}"]
    ws.write("clock-bound-shm/src/verif_layout.rs", "\n".join(lines) + "\n")
    ws.weave_log.append({"file": "clock-bound-shm/src/verif_layout.rs", "action": "generate", "text": "layout asserts from spec/layout.json", "why": "C17"})


def gen_ffi(ws):
    t = table()["c_abi"]
    lines = ["// GENERATED from /verif/spec/layout.json by tools/layout_gen.py -- C17 obligations (FFI side)",
             "use crate::*;", "use clock_bound_shm::{ClockStatus, ShmError};", "", "#[kani::proof]", "fn c17_ffi_layout() {"]
    for ty in ("clockbound_err", "clockbound_now_result"):
        lines += rust_struct_asserts(ty, t[ty], "C17.abi")
    lines.append('    kani::assert(std::mem::size_of::<clockbound_err_kind>() == 4 && std::mem::size_of::<clockbound_clock_status>() == 4, "C17.abi.enums_are_c_int");')
    for name, val in t["clockbound_err_kind"].items():
        lines.append(f'    kani::assert(clockbound_err_kind::{name} as i32 == {val}, "C17.abi.clockbound_err_kind.{name}");')
    for name, val in t["clockbound_clock_status"].items():
        lines.append(f'    kani::assert(clockbound_clock_status::{name} as i32 == {val}, "C17.abi.clockbound_clock_status.{name}");')
    lines.append('    kani::cover!(true, "C17.cover.ffi_layout_end");')
    lines.append("}")
    lines += ["""
#[kani::proof]
fn c17_ffi_status_conversion() {
    let s: u8 = kani::any();
    kani::assume(s < 3);
    let st = match s { 0 => ClockStatus::Unknown, 1 => ClockStatus::Synchronized, _ => ClockStatus::FreeRunning };
    let c: clockbound_clock_status = st.into();
    let code = c as i32;
    kani::assert(code == st as i32, "C06.ffi.status_conversion_preserves_code");
    kani::assert(code == s as i32, "C17.abi.status_conversion_total");
    kani::cover!(s == 1, "C17.cover.sync");
}

#[kani::proof]
fn c14_ffi_error_conversion() {
    let k: u8 = kani::any();
    kani::assume(k < 4);
    let en: i32 = kani::any();
    let origin = std::ffi::CStr::from_bytes_with_nul(b"x\\0").unwrap();
    let e = match k {
        0 => ShmError::SyscallError(errno::Errno(en), origin),
        1 => ShmError::SegmentNotInitialized,
        2 => ShmError::SegmentMalformed,
        _ => ShmError::CausalityBreach,
    };
    let c: clockbound_err = e.into();
    let kind = c.kind as i32;
    kani::assert(kind == k as i32 + 1, "C14.ffi.error_kind_preserved");
    kani::assert(if k == 0 { c.errno == en } else { c.errno == 0 }, "C14.ffi.errno_preserved_only_for_syscall");
    kani::assert((k == 0) == !c.detail.is_null(), "C14.ffi.detail_null_iff_not_syscall");
    if k == 0 {
        kani::assert(c.detail == origin.as_ptr(), "C14.ffi.detail_points_at_origin_string");
    }
    let d = clockbound_err::default();
    kani::assert(d.kind as i32 == 0 && d.errno == 0 && d.detail.is_null(), "C14.ffi.default_is_no_error");
    kani::cover!(k == 0, "C14.cover.syscall");
    kani::cover!(k == 3, "C14.cover.causality");
}
"""]
    ws.write("clock-bound-ffi/src/verif_ffi.rs", "\n".join(lines) + "\n")
    ws.weave_log.append({"file": "clock-bound-ffi/src/verif_ffi.rs", "action": "generate", "text": "ABI asserts from spec/layout.json + conversion harnesses", "why": "C17/C14/C06"})


def gen_header_check(path, header_dir):
    """C file for CBMC: the real clockbound.h against the same table."""
    t = table()["c_abi"]
    L = ['#include <stddef.h>', '#include "clockbound.h"', "", "void check(void) {"]
    names = []

    def A(cond, name):
        names.append(name)
        L.append(f'  __CPROVER_assert({cond}, "{name}");')
    for ty in ("clockbound_err", "clockbound_now_result"):
        spec = t[ty]
        A(f"sizeof({ty}) == {spec['size']}", f"C17.header.{ty}.size")
        A(f"_Alignof({ty}) == {spec['align']}", f"C17.header.{ty}.align")
        for f, (off, width) in spec["fields"].items():
            cf = spec.get("c_names", {}).get(f, f)
            A(f"offsetof({ty}, {cf}) == {off}", f"C17.header.{ty}.{f}.offset")
            A(f"sizeof((({ty} *)0)->{cf}) == {width}", f"C17.header.{ty}.{f}.width")
    for en in ("clockbound_err_kind", "clockbound_clock_status"):
        A(f"sizeof({en}) == 4", f"C17.header.{en}.is_int_sized")
        for name, val in t[en].items():
            A(f"{name} == {val}", f"C17.header.{en}.{name}")
    A("sizeof(struct timespec) == 16 && offsetof(struct timespec, tv_sec) == 0 && offsetof(struct timespec, tv_nsec) == 8", "C17.header.timespec_16_bytes_sec_then_nsec")
    L.append("}")
    open(path, "w").write("\n".join(L) + "\n")
    return names
