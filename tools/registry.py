"""Registry: weave units (what is inserted where), and per property the obligation groups.

Everything here is data; the driver is tools/check.py.  Harness sources are under /verif/harness,
Verus templates under /verif/verus.
"""
from vlib import Edit

# ---------------------------------------------------------------------------------------------
# weave units
# ---------------------------------------------------------------------------------------------
NOLOG_MACROS = (
    "#[cfg(kani)]\n#[allow(unused_macros)]\nmacro_rules! debug { ($($t:tt)*) => {{}}; }\n"
    "#[cfg(kani)]\n#[allow(unused_macros)]\nmacro_rules! error { ($($t:tt)*) => {{}}; }\n"
    "#[cfg(kani)]\n#[allow(unused_macros)]\nmacro_rules! info { ($($t:tt)*) => {{}}; }\n"
)


def child_mod_cfg(file, modname, cfg):
    return Edit(file, None, "append",
                f"\n#[cfg({cfg})]\n#[path = \"{modname}.rs\"]\nmod {modname};\n",
                why=f"search/replay module (cfg({cfg}) only)")


def child_mod(file, modname):
    """Append `#[cfg(kani)] #[path] mod <modname>;` to `file` (harness becomes a child module, so
    private items of the module under contract are reachable)."""
    return Edit(file, None, "append",
                f"\n#[cfg(kani)]\n#[path = \"{modname}.rs\"]\nmod {modname};\n",
                why="harness module (cfg(kani) only)")


UNITS = {
    # ---- clock-bound-shm ------------------------------------------------------------------
    "shm_write": {
        "crate": "clock-bound-shm", "features": "writer",
        "files": [("clock-bound-shm/src/verif_write.rs", "harness/clock-bound-shm/verif_write.rs")],
        "edits": [
            child_mod("clock-bound-shm/src/writer.rs", "verif_write"),
            Edit("clock-bound-shm/src/writer.rs", "            self.ceb.write(*ceb);\n", "before",
                 "            #[cfg(kani)]\n            verif_write::at_copy(self, 0);\n",
                 why="ghost probe: stored generation just before the record copy"),
            Edit("clock-bound-shm/src/writer.rs", "            self.ceb.write(*ceb);\n", "after",
                 "            #[cfg(kani)]\n            verif_write::at_copy(self, 1);\n",
                 why="ghost probe: stored generation just after the record copy"),
        ],
    },
    "shm_compute_search": {
        "crate": "clock-bound-shm", "features": "writer",
        "files": [("clock-bound-shm/src/verif_search_compute.rs", "harness/clock-bound-shm/verif_search_compute.rs")],
        "edits": [child_mod_cfg("clock-bound-shm/src/lib.rs", "verif_search_compute", "verif_search")],
    },
}

# ---------------------------------------------------------------------------------------------
# standing assumptions (DESIGN.md section 8), referenced by key
# ---------------------------------------------------------------------------------------------
A = {
    "tools": "Kani 0.68/CBMC 6.11, Verus 0.2026.09.13/Z3 and the rustc front ends are sound",
    "seq_atomics": "atomics are treated as sequential operations by Kani (single writer, program order only); "
                   "no weak-memory or interleaving reasoning (that is C02, not claimed)",
    "weaver": "the weaver's cfg(kani)-guarded insertions do not change the behaviour of the code under contract "
              "(weave log in this file); tracing log macros are no-ops under cfg(kani)",
    "target": "target = x86_64-unknown-linux-gnu",
    "float": "A1/A2 (assumed, verus/compute.rs.tmpl mod float_axioms): f64 `/` and `*` never fail; the expression "
             "((d as f64 / 1e9) * (drift as f64)) as i64 is a function fterm(d, drift) with |fterm - floor(d*drift/10^9)| <= "
             "1 + floor(d*drift/10^9)/2^50, fterm >= 0, fterm == 0 when d == 0 or drift == 0, and fterm monotone in d "
             "(three round-to-nearest operations with relative error 2^-53 each, then truncation); cross-checked by Kani only on a bounded window",
    "extract": "the extractor's listed rewrites (libc::timespec -> timespec, derive lines dropped, named return value, exec const) "
               "preserve the meaning of the extracted text; function bodies are pasted verbatim",
}

FLOAT_DEP = ["C05.compute.exact", "C05.compute.never_less", "C05.compute.not_more", "C05.compute.zero_age",
             "C05.compute.never_below_stored_bound", "C05.lemma.monotone", "C14.compute.blur_is_zero_age"]


COMPUTE_SEARCH = {"kind": "search", "crate": "clock-bound-shm", "units": ["shm_compute_search"], "features": "writer",
                  "test": "verif_search_compute"}


def compute_groups(pattern):
    return [
        {"kind": "verus", "gen": "compute", "obligations": [pattern, r"NIX\..*"], "rlimit": 30, "float_dependent": FLOAT_DEP,
         "float_shape_clause": "C05.compute.exact",
         "float_dependent_if_shape_lost": ["C05.compute.ordered", "C14.compute.no_panic"],
         "pair": COMPUTE_SEARCH},
    ]


COMPUTE_FUNCS = ["clock_bound_shm::ClockErrorBound::compute_bound_at (verbatim body, Verus)",
                 "nix::sys::time::{TimeSpec::new, nanos_mod_sec, tv_sec, tv_nsec, nanoseconds, num_seconds, num_nanoseconds, as_ref, From::from, "
                 "Add::add, Sub::sub, Ord::cmp, PartialOrd::partial_cmp, div_mod_floor_64, div_floor_64, mod_floor_64, div_rem_64} "
                 "(verbatim bodies from the nix version pinned in Cargo.lock, Verus)"]
COMPUTE_TRUSTED = ["tools/extract.py + tools/verus_gen.py (extraction, listed rewrites)",
                   "verus/compute.rs.tmpl: hand-declared struct timespec/TimeSpec, libc type aliases (i64 on x86_64 linux), zero_init_timespec stand-in, "
                   "field-wise PartialEq stand-in for the derive, float axioms A1/A2 (assumed)"]

# ---------------------------------------------------------------------------------------------
# properties
# ---------------------------------------------------------------------------------------------
PROPS = {
    "C05": {
        "functions": COMPUTE_FUNCS,
        "assumptions": [A["tools"], A["float"], A["extract"], A["weaver"]],
        "trusted": COMPUTE_TRUSTED,
        "groups": compute_groups(r"C05\..*"),
    },
    "C06": {
        "functions": COMPUTE_FUNCS,
        "assumptions": [A["tools"], A["extract"], A["weaver"]],
        "trusted": COMPUTE_TRUSTED,
        "groups": compute_groups(r"C06\..*"),
    },
    "C14": {
        "functions": COMPUTE_FUNCS,
        "assumptions": [A["tools"], A["float"], A["extract"], A["weaver"]],
        "trusted": COMPUTE_TRUSTED,
        "groups": compute_groups(r"C14\..*"),
    },
    "C11": {
        "functions": ["clock_bound_shm::writer::<ShmWriter as ShmWrite>::write"],
        "assumptions": [A["tools"], A["seq_atomics"], A["weaver"]],
        "trusted": ["tools/weave (vlib.Workspace.apply)", "harness/clock-bound-shm/verif_write.rs (oracle next_gen, Seg layout)"],
        "groups": [
            {"kind": "kani", "crate": "clock-bound-shm", "units": ["shm_write"],
             "harnesses": [
                 {"name": "c11_write_contract", "file": "harness/clock-bound-shm/verif_write.rs",
                  "also": ["C11.write.gen_odd_before_copy", "C11.write.gen_odd_after_copy"],
                  "replayable": True, "tier": "quick", "timeout": 300},
             ]},
        ],
    },
}
