"""Registry: weave units (what is inserted where), and per property the obligation groups.

Everything here is data; the driver is tools/check.py.  Harness sources are under /verif/harness,
Verus templates under /verif/verus.
"""
from vlib import Edit

# ---------------------------------------------------------------------------------------------
# weave units
# ---------------------------------------------------------------------------------------------
NOLOG_MACROS = (
    "#[cfg(kani)]\n#[allow(unused_macros)]\nmacro_rules! debug { ($($t:tt)*) => {{}}; }\n"
    "#[cfg(kani)]\n#[allow(unused_macros)]\nmacro_rules! error { ($($t:tt)*) => {{}}; }\n"
    "#[cfg(kani)]\n#[allow(unused_macros)]\nmacro_rules! info { ($($t:tt)*) => {{}}; }\n"
)


def child_mod_cfg(file, modname, cfg):
    return Edit(file, None, "append",
                f"\n#[cfg({cfg})]\n#[path = \"{modname}.rs\"]\nmod {modname};\n",
                why=f"search/replay module (cfg({cfg}) only)")


def child_mod(file, modname):
    """Append `#[cfg(kani)] #[path] pub(crate) mod <modname>;` to `file` (harness becomes a child
    module, so private items of the module under contract are reachable)."""
    return Edit(file, None, "append",
                f"\n#[cfg(kani)]\n#[path = \"{modname}.rs\"]\npub(crate) mod {modname};\n",
                why="harness module (cfg(kani) only)")


def gen_verif_main(ws):
    """clock-bound-d/src/main.rs: cut the ppm->ppb statement and the default constant."""
    import os, re
    import extract as ex
    from vlib import VERIF, Undecided
    src = ws.read("clock-bound-d/src/main.rs")
    try:
        stmt = ex.statement(src, "    let max_drift_ppb = ", "\n    };\n", "main.rs ppm->ppb statement")
    except ex.ExtractError as e:
        # the statement may have been rewritten into a single expression ending in `;`
        m = re.search(r"^    let max_drift_ppb(?:: u32)? = [^;]*;\n", src, re.M)
        if not m:
            raise Undecided("extract", "extraction anchor lost: " + str(e))
        stmt = m.group(0)
    # every top-level constant of main.rs (the statement may refer to any of them)
    consts = re.findall(r"^(?:pub(?:\([a-z]+\))? )?const [A-Z0-9_]+: [^=;]+ = [^;]*;$", src, re.M)
    if not any("DEFAULT_MAX_DRIFT_RATE_PPB" in c for c in consts):
        raise Undecided("extract", "extraction anchor lost: const DEFAULT_MAX_DRIFT_RATE_PPB")
    # every other top-level function of main.rs, verbatim (a refactoring may move the conversion into a
    # helper; under Kani the helper's real body runs, so no contract is needed for it)
    helpers = []
    for m in re.finditer(r"^(?:pub(?:\([a-z]+\))? )?fn ([a-z_][a-z0-9_]*)\s*[(<]", src, re.M):
        if m.group(1) == "main":
            continue
        try:
            st, ob, en = ex.item(src, r"^(?:pub(?:\([a-z]+\))? )?fn %s\s*[(<]" % re.escape(m.group(1)), "fn " + m.group(1))
            helpers.append("#[allow(dead_code)]\n" + src[st:en])
        except ex.ExtractError:
            pass
    tmpl = open(os.path.join(VERIF, "harness/clock-bound-d/verif_main.rs.tmpl")).read()
    ws.write("clock-bound-d/src/verif_main.rs", tmpl.replace("@@CONST@@", "\n".join(["#[allow(dead_code)]\n" + c for c in consts] + helpers)).replace("@@STATEMENT@@", stmt.rstrip("\n")))
    ws.weave_log.append({"file": "clock-bound-d/src/verif_main.rs", "action": "generate",
                         "text": "statement `let max_drift_ppb = ...;` and every top-level `const` item cut verbatim from clock-bound-d/src/main.rs "
                                 "and wrapped as fn verif_ppb(args: Cli) -> Result<u32, String>",
                         "why": "the conversion is a statement inside main(); dropped: nothing (warn! is a no-op macro)"})


UNITS = {
    # ---- clock-bound-shm ------------------------------------------------------------------
    "shm_write": {
        "crate": "clock-bound-shm", "features": "writer",
        "files": [("clock-bound-shm/src/verif_write.rs", "harness/clock-bound-shm/verif_write.rs")],
        "edits": [
            child_mod("clock-bound-shm/src/writer.rs", "verif_write"),
            Edit("clock-bound-shm/src/writer.rs", "            self.ceb.write(*ceb);\n", "before",
                 "            #[cfg(kani)]\n            verif_write::at_copy(self, 0);\n",
                 why="ghost probe: stored generation just before the record copy", probe_group="write_probes"),
            Edit("clock-bound-shm/src/writer.rs", "            self.ceb.write(*ceb);\n", "after",
                 "            #[cfg(kani)]\n            verif_write::at_copy(self, 1);\n",
                 why="ghost probe: stored generation just after the record copy", probe_group="write_probes"),
        ],
        "probe_alt": {"write_probes": [
            Edit("clock-bound-shm/src/writer.rs", r"self\.ceb\.write\(\s*\*\s*[a-z_][a-z0-9_]*\s*\);", "regex",
                 "#[cfg(kani)]\n            verif_write::at_copy(self, 0);\n            \\g<0>\n            #[cfg(kani)]\n            verif_write::at_copy(self, 1);",
                 why="ghost probes: stored generation just before / after the record copy (pattern anchor: the copy statement whatever the parameter is called)",
                 count=1),
        ]},
        "probe_guards": {"write_probes": ["C11.write.gen_odd_before_copy", "C11.write.gen_odd_after_copy", "C11.write.copy_probes_reached",
                                          "C11.write.gen_stable_during_copy", "C11.write.odd_value_adopted_or_incremented"]},
    },
    "shm_read": {
        "crate": "clock-bound-shm", "features": "writer",
        "files": [("clock-bound-shm/src/verif_read.rs", "harness/clock-bound-shm/verif_read.rs")],
        "edits": [
            child_mod("clock-bound-shm/src/reader.rs", "verif_read"),
            Edit("clock-bound-shm/src/reader.rs", "        let version = version.load(atomic::Ordering::Acquire);\n", "before",
                 "        #[cfg(kani)]\n        verif_read::environment_step();\n", why="environment step before the version load", probe_group="read_probes"),
            Edit("clock-bound-shm/src/reader.rs", "        let mut first_gen = generation.load(atomic::Ordering::Acquire);\n", "before",
                 "        #[cfg(kani)]\n        verif_read::environment_step();\n", why="environment step before the first generation load", probe_group="read_probes"),
            Edit("clock-bound-shm/src/reader.rs", "            let snapshot = unsafe { self.ceb_shm.read_volatile() };\n", "before",
                 "            #[cfg(kani)]\n            {\n                verif_read::environment_step();\n                verif_read::at_record_read();\n            }\n",
                 why="environment step + ghost counter before the record copy", probe_group="read_probes"),
            Edit("clock-bound-shm/src/reader.rs", "            let second_gen = generation.load(atomic::Ordering::Acquire);\n", "before",
                 "            #[cfg(kani)]\n            verif_read::environment_step();\n", why="environment step before the second generation load", probe_group="read_probes"),
            Edit("clock-bound-shm/src/reader.rs", "        let mut retries = 1_000_000;\n", "replace",
                 "        #[cfg(not(kani))]\n        let mut retries = 1_000_000;\n        #[cfg(kani)]\n        let mut retries = verif_read::retry_budget();\n",
                 why="retry budget: unchanged (1 000 000) unless the adversarial harness is running, then 3 (bounded stand-in for C18)",
                 probe_group="read_probes"),
        ],
        # used when a statement anchor above is lost (locals renamed, loop restructured): anchor on the
        # shared-memory access expressions themselves, wherever they stand inside `snapshot`
        "probe_alt": {"read_probes": [
            Edit("clock-bound-shm/src/reader.rs", r"\b[A-Za-z_][A-Za-z0-9_]*\.load\(\s*atomic::Ordering::Acquire\s*\)", "regex",
                 "{\n            #[cfg(kani)]\n            verif_read::environment_step();\n            \\g<0>\n        }",
                 why="environment step before every atomic load of the shared segment inside snapshot", scope_fn="snapshot"),
            Edit("clock-bound-shm/src/reader.rs", r"self\.ceb_shm\.read_volatile\(\)", "regex",
                 "{\n                #[cfg(kani)]\n                {\n                    verif_read::environment_step();\n                    verif_read::at_record_read();\n                }\n"
                 "                self.ceb_shm.read_volatile()\n            }",
                 why="environment step + ghost counter before every record copy inside snapshot", scope_fn="snapshot"),
            Edit("clock-bound-shm/src/reader.rs", r"\b1_000_000\b", "regex", "verif_budget!(1_000_000)", count=1,
                 why="retry budget: unchanged (1 000 000) outside Kani, 3 under Kani (bounded stand-in for C18; the other harnesses never need more than two iterations)"),
            Edit("clock-bound-shm/src/reader.rs", r"\A", "regex",
                 "#[cfg(kani)]\nmacro_rules! verif_budget { ($x:expr) => { 3 }; }\n#[cfg(not(kani))]\nmacro_rules! verif_budget { ($x:expr) => { $x }; }\n",
                 count=1, why="the budget macro used by the rewrite above"),
        ]},
        "probe_guards": {"read_probes": ["C03.one_update.never_an_error", "C03.one_update.returns_one_whole_publication_with_its_generation",
                                         "C03.one_update.switch_before_the_first_generation_load_is_caught_up", "C03.one_update.needs_at_most_two_iterations",
                                         "C18.snapshot.one_read_when_quiescent", "C18.snapshot.early_return_without_reading",
                                         "C18.snapshot.record_reads_bounded_by_budget", "C18.snapshot.shared_accesses_bounded_by_budget",
                                         "C18.snapshot.accepts_only_even_generation", "C18.snapshot.error_kind_after_budget",
                                         "C18.snapshot.error_only_after_full_budget"]},
    },
    # a cfg(kani)-only public accessor so that harnesses in OTHER crates can look at the private fields
    # of a record / the cache state of a reader instead of trusting the crate's own constructor or ==
    "shm_pub": {
        "crate": "clock-bound-shm", "features": "writer",
        "edits": [Edit("clock-bound-shm/src/lib.rs", None, "append", """
#[cfg(kani)]
pub mod verif_pub {
    use crate::{ClockErrorBound, ShmReader};
    /// (as_of.sec, as_of.nsec, void_after.sec, void_after.nsec, bound_nsec, max_drift_ppb, reserved1, clock_status)
    pub fn fields(c: &ClockErrorBound) -> (i64, i64, i64, i64, i64, u32, u32, i32) {
        (c.as_of.tv_sec, c.as_of.tv_nsec, c.void_after.tv_sec, c.void_after.tv_nsec, c.bound_nsec, c.max_drift_ppb, c.reserved1,
         c.clock_status as i32)
    }
    /// (cached generation, fields of the cached record) of a reader
    pub fn reader_cache(r: &ShmReader) -> (u16, (i64, i64, i64, i64, i64, u32, u32, i32)) {
        crate::reader::reader_cache_state(r)
    }
    /// a reader attached to a harness-owned 72-byte area (never dereferenced when snapshot is stubbed);
    /// the caller must mem::forget it
    pub fn reader_over(base: *mut u8) -> ShmReader {
        crate::reader::reader_for_harness(base)
    }
    /// a writer over a harness-owned 72-byte area; the caller must mem::forget it
    pub fn writer_over(base: *mut u8) -> crate::writer::ShmWriter {
        crate::writer::writer_for_harness(base)
    }
    pub fn record(f: (i64, i64, i64, i64, i64, u32, u32, i32)) -> ClockErrorBound {
        ClockErrorBound {
            as_of: libc::timespec { tv_sec: f.0, tv_nsec: f.1 },
            void_after: libc::timespec { tv_sec: f.2, tv_nsec: f.3 },
            bound_nsec: f.4, max_drift_ppb: f.5, reserved1: f.6,
            clock_status: match f.7 { 1 => crate::ClockStatus::Synchronized, 2 => crate::ClockStatus::FreeRunning, _ => crate::ClockStatus::Unknown },
        }
    }
}
""", why="cfg(kani)-only accessor for cross-crate harness oracles"),
                  Edit("clock-bound-shm/src/reader.rs", None, "append", """
#[cfg(kani)]
pub(crate) fn reader_cache_state(r: &ShmReader) -> (u16, (i64, i64, i64, i64, i64, u32, u32, i32)) {
    (r.snapshot_gen, crate::verif_pub::fields(&r.snapshot_ceb))
}

#[cfg(kani)]
pub(crate) fn reader_for_harness(base: *mut u8) -> ShmReader {
    ShmReader {
        _marker: std::marker::PhantomData,
        _guard: MmapGuard { segment: base.cast(), segsize: 72 },
        version: unsafe { base.add(12) }.cast(),
        generation: unsafe { base.add(14) }.cast(),
        ceb_shm: unsafe { base.add(16) }.cast(),
        snapshot_ceb: ClockErrorBound::default(),
        snapshot_gen: 0,
    }
}
""", why="cfg(kani)-only accessor/constructor (ShmReader's fields are private to reader.rs)"),
                  Edit("clock-bound-shm/src/writer.rs", None, "append", """
#[cfg(kani)]
pub(crate) fn writer_for_harness(base: *mut u8) -> ShmWriter {
    ShmWriter {
        segsize: 72,
        addr: base.cast(),
        version: unsafe { base.add(12) }.cast(),
        generation: unsafe { base.add(14) }.cast(),
        ceb: unsafe { base.add(16) }.cast(),
    }
}
""", why="cfg(kani)-only constructor (ShmWriter's fields are private to writer.rs)")],
    },
    "shm_now": {
        "crate": "clock-bound-shm", "features": "writer",
        "files": [("clock-bound-shm/src/verif_now.rs", "harness/clock-bound-shm/verif_now.rs")],
        "edits": [child_mod("clock-bound-shm/src/lib.rs", "verif_now")],
    },
    "shm_layout": {
        "crate": "clock-bound-shm", "features": "writer",
        "gen": __import__("layout_gen").gen_shm,
        "edits": [child_mod("clock-bound-shm/src/lib.rs", "verif_layout")],
    },
    "ffi_layout": {
        "crate": "clock-bound-ffi", "features": None,
        "gen": __import__("layout_gen").gen_ffi,
        "edits": [child_mod("clock-bound-ffi/src/lib.rs", "verif_ffi")],
    },
    "ffi_glue": {
        "crate": "clock-bound-ffi", "features": None,
        "files": [("clock-bound-ffi/src/verif_ffi_glue.rs", "harness/clock-bound-ffi/verif_ffi_glue.rs")],
        "edits": [child_mod("clock-bound-ffi/src/lib.rs", "verif_ffi_glue")],
    },
    "client_conv": {
        "crate": "clock-bound-client", "features": None,
        "files": [("clock-bound-client/src/verif_client.rs", "harness/clock-bound-client/verif_client.rs")],
        "edits": [child_mod("clock-bound-client/src/lib.rs", "verif_client")],
    },
    "shm_header": {
        "crate": "clock-bound-shm", "features": "writer",
        "files": [("clock-bound-shm/src/verif_header.rs", "harness/clock-bound-shm/verif_header.rs")],
        "edits": [child_mod("clock-bound-shm/src/shm_header.rs", "verif_header")],
    },
    "shm_wipe_search": {
        "crate": "clock-bound-shm", "features": "writer",
        "files": [("clock-bound-shm/src/verif_search_wipe.rs", "harness/clock-bound-shm/verif_search_wipe.rs")],
        "edits": [child_mod_cfg("clock-bound-shm/src/writer.rs", "verif_search_wipe", "verif_search")],
    },
    "shm_compute_search": {
        "crate": "clock-bound-shm", "features": "writer",
        "files": [("clock-bound-shm/src/verif_search_compute.rs", "harness/clock-bound-shm/verif_search_compute.rs")],
        "edits": [child_mod_cfg("clock-bound-shm/src/lib.rs", "verif_search_compute", "verif_search")],
    },
    # ---- clock-bound-d ----------------------------------------------------------------------
    "d_nolog": {
        "crate": "clock-bound-d", "features": None,
        "edits": [
            Edit("clock-bound-d/src/%s" % f, "use tracing::{debug, error, info};\n", "replace",
                 "#[cfg(not(kani))]\nuse tracing::{debug, error, info};\n" + NOLOG_MACROS,
                 why="tracing macros make kani-compiler 0.68 panic; under cfg(kani) they are no-ops (arguments not evaluated)")
            for f in ("shm_writer.rs", "chrony_poller.rs", "thread_manager.rs")
        ],
    },
    "d_poller": {
        "crate": "clock-bound-d", "features": None,
        "files": [("clock-bound-d/src/verif_poller.rs", "harness/clock-bound-d/verif_poller.rs")],
        "edits": [child_mod("clock-bound-d/src/chrony_poller.rs", "verif_poller")],
    },
    "d_phc_search": {
        "crate": "clock-bound-d", "features": None,
        "files": [("clock-bound-d/src/verif_search_phc.rs", "harness/clock-bound-d/verif_search_phc.rs")],
        "edits": [child_mod_cfg("clock-bound-d/src/chrony_poller.rs", "verif_search_phc", "verif_search")],
    },
    "d_poller_search": {
        "crate": "clock-bound-d", "features": None,
        "files": [("clock-bound-d/src/verif_search_poller.rs", "harness/clock-bound-d/verif_search_poller.rs")],
        "edits": [child_mod_cfg("clock-bound-d/src/chrony_poller.rs", "verif_search_poller", "verif_search")],
    },
    "d_restart_search": {
        "crate": "clock-bound-d", "features": None,
        "files": [("clock-bound-d/src/verif_search_restart.rs", "harness/clock-bound-d/verif_search_restart.rs")],
        "edits": [child_mod_cfg("clock-bound-d/src/shm_writer.rs", "verif_search_restart", "verif_search")],
    },
    "d_cli_search": {
        "crate": "clock-bound-d", "features": None,
        "files": [("clock-bound-d/src/verif_search_cli.rs", "harness/clock-bound-d/verif_search_cli.rs")],
        "edits": [child_mod_cfg("clock-bound-d/src/main.rs", "verif_search_cli", "verif_search")],
    },
    "d_extract_search": {
        "crate": "clock-bound-d", "features": None,
        "files": [("clock-bound-d/src/verif_search_extract.rs", "harness/clock-bound-d/verif_search_extract.rs")],
        "edits": [child_mod_cfg("clock-bound-d/src/shm_writer.rs", "verif_search_extract", "verif_search")],
    },
    "d_status_search": {
        "crate": "clock-bound-d", "features": None,
        "files": [("clock-bound-d/src/verif_search_status.rs", "harness/clock-bound-d/verif_search_status.rs")],
        "edits": [child_mod_cfg("clock-bound-d/src/shm_writer.rs", "verif_search_status", "verif_search")],
    },
    "d_main": {
        "crate": "clock-bound-d", "features": None,
        "gen": gen_verif_main,
        "edits": [child_mod("clock-bound-d/src/lib.rs", "verif_main")],
    },
    "d_updater": {
        "crate": "clock-bound-d", "features": None,
        "files": [("clock-bound-d/src/verif_updater.rs", "harness/clock-bound-d/verif_updater.rs")],
        "edits": [child_mod("clock-bound-d/src/shm_writer.rs", "verif_updater")],
    },
}

# ---------------------------------------------------------------------------------------------
# standing assumptions (DESIGN.md section 8), referenced by key
# ---------------------------------------------------------------------------------------------
A = {
    "tools": "Kani 0.68/CBMC 6.11, Verus 0.2026.09.13/Z3 and the rustc front ends are sound",
    "seq_atomics": "atomics are treated as sequential operations by Kani (single writer, program order only); "
                   "no weak-memory or interleaving reasoning (that is C02, not claimed)",
    "weaver": "the weaver's cfg(kani)-guarded insertions do not change the behaviour of the code under contract "
              "(weave log in this file); tracing log macros are no-ops under cfg(kani)",
    "target": "target = x86_64-unknown-linux-gnu",
    "float": "A1/A2 (assumed, verus/compute.rs.tmpl mod float_axioms): f64 `/` and `*` never fail; the expression "
             "((d as f64 / 1e9) * (drift as f64)) as i64 is a function fterm(d, drift) with |fterm - floor(d*drift/10^9)| <= "
             "1 + floor(d*drift/10^9)/2^50, fterm >= 0, fterm == 0 when d == 0 or drift == 0, and fterm monotone in d "
             "(three round-to-nearest operations with relative error 2^-53 each, then truncation); cross-checked by Kani only on a bounded window",
    "extract": "the extractor's listed rewrites (libc::timespec -> timespec, derive lines dropped, named return value, exec const) "
               "preserve the meaning of the extracted text; function bodies are pasted verbatim",
}

FLOAT_DEP = ["C05.compute.exact", "C05.compute.never_less", "C05.compute.not_more", "C05.compute.zero_age",
             "C05.compute.never_below_stored_bound", "C05.lemma.monotone", "C14.compute.blur_is_zero_age"]


COMPUTE_SEARCH = {"kind": "search", "crate": "clock-bound-shm", "units": ["shm_compute_search"], "features": "writer",
                  "test": "verif_search_compute"}


COMPUTE_CLAUSES = ["C14.compute.no_panic", "C14.compute.malformed", "C14.compute.causality", "C14.compute.ok_otherwise", "C14.compute.blur_is_zero_age",
                   "C05.compute.symmetric", "C05.compute.normalised", "C05.compute.ordered", "C05.compute.never_less", "C05.compute.not_more",
                   "C05.compute.zero_age", "C05.compute.never_below_stored_bound",
                   "C06.compute.status_law", "C06.compute.sync_only_if", "C06.compute.free_only_if", "C06.compute.unknown_sticky",
                   "C06.compute.void_is_unknown", "C06.compute.passthrough", "C06.compute.decay"]


def compute_native(prefixes):
    """BOUNDED cross-check on every run: the same clauses evaluated on the natively compiled real function (this is
    also the only check of the float axioms A1/A2 against real IEEE arithmetic)."""
    return {"kind": "native", "crate": "clock-bound-shm", "units": ["shm_compute_search"], "features": "writer", "test": "verif_search_compute",
            "bound": "~1.5 M boundary-value combinations (thresholds +/-1 ns, second boundaries, extreme bounds and drift rates) + 400 000 seeded random inputs",
            "obligations": [c for c in COMPUTE_CLAUSES if c.startswith(tuple(prefixes))]}


EXTRACT_NATIVE = {"kind": "native", "crate": "clock-bound-d", "units": ["d_extract_search"], "features": None, "test": "verif_search_extract",
                  "bound": "README example of either sign, 9 coefficients x 9 exponents boundary grid for the three terms, 2 000 000 seeded random reports; exact i128 oracle",
                  "obligations": ["C07.extract.body_obligations", "C07.extract.never_negative", "C07.extract.never_smaller_than_the_sum",
                                  "C07.extract.rounded_up_by_less_than_1ns"]}

STATUS_PAIR = {"kind": "search", "crate": "clock-bound-d", "units": ["d_status_search"], "features": None, "test": "verif_search_status"}
STATUS_NATIVE = {"kind": "native", "crate": "clock-bound-d", "units": ["d_status_search"], "features": None, "test": "verif_search_status",
                 "bound": "real SystemTime clock: 9 leap codes x 41 wire exponents x 4 coefficients of the update interval x 14 reference-time ages "
                          "(1 day in the future ... 40 years old, incl. 8 intervals -/+ 30 s); ages within 20 s of a decision boundary are not asserted",
                 "obligations": ["C10.extract.no_panic", "C10.extract.sync_only_if_leap", "C10.extract.sync_only_if_not_future", "C10.extract.sync_only_if_fresh",
                                 "C10.extract.stale_is_free", "C10.extract.leap3_is_free", "C10.extract.bad_leap_unknown", "C10.extract.future_unknown",
                                 "C10.extract.fresh_is_sync"]}

NOW_GRP = {"kind": "kani", "crate": "clock-bound-shm", "units": ["shm_now"], "modpath": "verif_now",
           "harnesses": [{"name": "c12_now_reads_realtime_then_monotonic", "file": "harness/clock-bound-shm/verif_now.rs", "replayable": False,
                          "tier": "quick", "timeout": 600}]}
CLOCK_GRP = {"kind": "kani", "crate": "clock-bound-shm", "units": ["shm_now"], "modpath": "verif_now", "c_lib": "harness/clock-bound-shm/clock_model.c",
             "harnesses": [{"name": "c12_clock_gettime_safe_is_one_system_call", "file": "harness/clock-bound-shm/verif_now.rs", "replayable": False,
                            "tier": "quick", "timeout": 600}]}


def compute_groups(pattern, with_now=False):
    g = [
        {"kind": "verus", "gen": "compute", "obligations": [pattern, r"NIX\..*"], "rlimit": 30, "float_dependent": FLOAT_DEP,
         "float_shape_clause": "C05.compute.exact",
         "float_dependent_if_shape_lost": ["C05.compute.ordered", "C14.compute.no_panic"],
         "pair": COMPUTE_SEARCH},
    ]
    if with_now:
        g.append(NOW_GRP)   # the public wrapper now(): both clocks read, in order, for every record
        g.append(CLOCK_GRP)
    g.append(compute_native([pattern[:3]]))
    return g


COMPUTE_FUNCS = ["clock_bound_shm::ClockErrorBound::compute_bound_at (verbatim body, Verus)",
                 "nix::sys::time::{TimeSpec::new, nanos_mod_sec, tv_sec, tv_nsec, nanoseconds, num_seconds, num_nanoseconds, as_ref, From::from, "
                 "Add::add, Sub::sub, Ord::cmp, PartialOrd::partial_cmp, div_mod_floor_64, div_floor_64, mod_floor_64, div_rem_64} "
                 "(verbatim bodies from the nix version pinned in Cargo.lock, Verus)"]
COMPUTE_TRUSTED = ["tools/extract.py + tools/verus_gen.py (extraction, listed rewrites)",
                   "verus/compute.rs.tmpl: hand-declared struct timespec/TimeSpec, libc type aliases (i64 on x86_64 linux), zero_init_timespec stand-in, "
                   "field-wise PartialEq stand-in for the derive, float axioms A1/A2 (assumed)"]

# ---------------------------------------------------------------------------------------------
# properties
# ---------------------------------------------------------------------------------------------
WR = "harness/clock-bound-shm/verif_write.rs"
RD = "harness/clock-bound-shm/verif_read.rs"
HD = "harness/clock-bound-shm/verif_header.rs"


def sh(name, file, replayable=True, timeout=600, **kw):
    d = {"name": name, "file": file, "replayable": replayable, "tier": "quick", "timeout": timeout}
    d.update(kw)
    return d


SHM_WRITE_GRP = {"kind": "kani", "crate": "clock-bound-shm", "units": ["shm_write", "shm_read"], "modpath": "writer::verif_write"}
SHM_READ_GRP = {"kind": "kani", "crate": "clock-bound-shm", "units": ["shm_read"], "modpath": "reader::verif_read"}
SHM_HDR_GRP = {"kind": "kani", "crate": "clock-bound-shm", "units": ["shm_header"], "modpath": "shm_header::verif_header"}
C11_WRITE = sh("c11_write_contract", WR, also=["C11.write.gen_odd_before_copy", "C11.write.gen_odd_after_copy"], timeout=300)
QUIESCENT_H = sh("c03_snapshot_quiescent", RD,
                 unwind_obligation="C18.snapshot.quiescent_call_leaves_the_retry_loop_in_its_first_iteration")
# the same harness as used by C03 / C04: only their own clauses count there (the C18 read-count clauses
# depend on optional ghost probes)
QUIESCENT_H_C03 = dict(QUIESCENT_H, only=r"C03\.|C04\.|C18\.snapshot\.quiescent_call")
ONE_UPDATE_H = sh("c03_snapshot_one_publication_during_the_call", RD, replayable=False,
                  unwind_obligation="C03.one_update.needs_at_most_two_iterations")
ADVERSARIAL_H = sh("c18_snapshot_adversarial_bounded", RD, replayable=False,
                   unwind_obligation="C18.snapshot.no_loop_beyond_the_retry_budget",
                   completeness="bounded: retry budget overridden to 3 (real: 1 000 000), loop fully unwound")
# The parity clause needs an inductive invariant that names a local of `snapshot`; a restructured body can make
# it unprovable without the property being broken, so its failure counts as a violation only together with a
# counterexample of the bounded adversarial Kani harness (same rule as for the float-shape clauses), else exit 2.
SNAPSHOT_VERUS = {"kind": "verus", "gen": "snapshot", "obligations": [r"C18\.verus\..*"], "rlimit": 30,
                  "float_dependent": ["C18.verus.a_newly_cached_generation_is_even"],
                  "needs_input_reason": "an inductive invariant spliced into the extracted loop (it names a local of snapshot)",
                  "pair": dict(SHM_READ_GRP, harnesses=[ADVERSARIAL_H])}
OPEN_H = sh("c16_open_any_file", RD, replayable=False, timeout=900)
PROBE_H = sh("c16_usability_probe_agrees_with_client_open", WR, replayable=False, timeout=900)
WIPE_NATIVE = {"kind": "native", "crate": "clock-bound-shm", "units": ["shm_wipe_search"], "features": "writer", "test": "verif_search_wipe",
               "bound": "pre-existing file absent or of every length 0..=200 x 4 fill patterns (zeros, 0xff, counter, valid header with short declared size); restart histories from 10 start "
                        "generations (odd and even, around the 16-bit wrap) with an attached client, 12 publications each and one run of 70 000; on the real file system",
               "obligations": ["C16.wipe.succeeds_whatever_the_file_contained", "C16.wipe.file_is_exactly_72_bytes", "C16.wipe.magic_first", "C16.wipe.declared_size_72",
                               "C16.wipe.version_0_generation_0", "C16.wipe.record_is_zero", "C16.e2e.new_succeeds_on_any_file",
                               "C16.e2e.client_can_open_after_first_publication", "C16.e2e.client_reads_back_exactly_the_published_record",
                               "C16.e2e.recreated_file_is_72_bytes", "C04.e2e.attached_reader_follows_restarted_writer",
                               "C11.e2e.generation_even_nonzero_after_every_write"]}
POSIX = "harness/clock-bound-shm/posix_model.c"
A_POSIX = ("POSIX model (harness/clock-bound-shm/posix_model.c, linked with -Z c-ffi): one file of 0..96 bytes that may be missing, a directory, or fail to map; "
           "open/read/mmap/munmap/close/errno behave as the model says; only the first 24 bytes of content are symbolic, the rest reads as 0")
A_FS_STUBS = ("ShmWriter::{is_usable_segment, wipe, mmap_segment_at} are replaced by contract stubs in the ShmWriter::new harness: probe Ok iff a client could open the file "
              "(this contract of is_usable_segment is itself proved on the POSIX model: C16.probe.*), "
              "wipe re-creates the file as magic/size/version 0/generation 0/zero record (its byte-level output through std::fs + byteorder is UNVERIFIED), mmap MAP_SHARED aliases the readers' bytes")

UPD = "harness/clock-bound-d/verif_updater.rs"


def dh(name, replayable=False, timeout=600, **kw):
    d = {"name": name, "file": UPD, "replayable": replayable, "tier": "quick", "timeout": timeout}
    d.update(kw)
    return d


def lemmas(*patterns):
    return {"kind": "verus", "gen": "lemmas", "obligations": list(patterns), "rlimit": 30}


A_LEMMA = ("the spec functions of verus/lemmas.rs.tmpl (next_gen_spec, snapshot_step, upd_step/published, the hypotheses of lemma_c01_containment) restate the postconditions "
           "discharged on the real code by the named Kani/Verus obligations; the restatement is by hand except next_gen, whose Kani oracle text is verified against the spec function")

PHC_NATIVE = {"kind": "native", "crate": "clock-bound-d", "units": ["d_phc_search"], "features": None, "test": "verif_search_phc",
              "bound": "71 values (0, +-small, every power of ten up to 10^18 with its neighbours, 2^32 neighbourhood, 2^40, i64::MIN/MAX) x 4 textual forms, on real files",
              "obligations": ["C07.phc.file_value_returned_exactly", "C13.phc.missing_file_is_an_error"]}

CLI_NATIVE = {"kind": "native", "crate": "clock-bound-d", "units": ["d_cli_search"], "features": None, "test": "verif_search_cli",
              "target_sel": ("--bin", "clockbound"), "release": True,
              "bound": "the real clap parser in the release profile: 9 values x 4 spellings of the option (--max-drift-rate N, --max-drift-rate=N, -m N, -mN), option omitted, value 2^32",
              "obligations": ["C19.cli.option_value_reaches_the_conversion"]}

RESTART_NATIVE = {"kind": "native", "crate": "clock-bound-d", "units": ["d_restart_search"], "features": None, "test": "verif_search_restart",
                  "bound": "8 histories of a first daemon incarnation (never synchronised / synchronised then lost) x 9 sequences of 1-2 non-synchronised outcomes of the restarted daemon, real ShmWriter on a real file",
                  "obligations": ["C09.restart.no_trust_before_first_sync_of_the_new_incarnation"]}

DGRP = {"kind": "kani", "crate": "clock-bound-d", "units": ["shm_pub", "d_nolog", "d_updater"], "modpath": "shm_writer::verif_updater"}
POLLER_PAIR = {"kind": "search", "crate": "clock-bound-d", "units": ["d_poller_search"], "features": None, "test": "verif_search_poller"}
POLLER_BOUND = ("the real loop on the real monotonic clock, real channels and a real PHC file, one iteration per scenario: 6 reply scripts over up to two queries "
                "(answered / silent / answered after 300 ms) x 4 grace answers (before / after the query) x 6 PHC configurations; 3 two-poll scenarios with the PHC value changing")
POLLER_NATIVE_C12 = dict(POLLER_PAIR, kind="native", bound=POLLER_BOUND,
                         obligations=["C12.poller.as_of_is_a_monotonic_clock_reading", "C12.poller.as_of_read_before_the_query_it_stamps"])
POLLER_NATIVE_C13 = dict(POLLER_PAIR, kind="native", bound=POLLER_BOUND,
                         obligations=["C13.select.no_panic", "C13.select.one_message_per_poll", "C13.select.silence_is_grace_then_unknown_class",
                                      "C13.select.grace_judged_after_the_query_returned", "C13.select.phc_bound_attached_exactly",
                                      "C13.select.report_with_phc_bound_is_data", "C13.select.phc_failure_is_not_a_measurement",
                                      "C13.select.phc_term_zero_when_not_the_reference", "C13.select.report_without_phc_is_data",
                                      "C13.select.report_forwarded_unchanged", "C13.two_polls.one_message_per_poll",
                                      "C13.two_polls.each_report_carries_the_phc_bound_read_in_that_poll"])
PGRP = {"kind": "kani", "crate": "clock-bound-d", "units": ["d_nolog", "d_poller"], "modpath": "chrony_poller::verif_poller", "pair": POLLER_PAIR}
POL = "harness/clock-bound-d/verif_poller.rs"
UPD_FUNCS = ["clock_bound_d::shm_writer::ShmUpdater::{new, write_clock_error_bound, process_clock_update, process_missing_clock_update}",
             "clock_bound_d::shm_writer::clock_state_fsm::{ShmClockState::default, FSMState::apply_chrony, FSMState::value, FSMTransition::transition x3}"]
UPD_ASSUME = [A["tools"], A["weaver"],
              "extract_bound_from_tracking is replaced by its contract 'returns some (bound, status)' in the step harnesses (kani::stub); its own obligations are C07/C10",
              "|bound|, |phc_error_bound| < 2^62 and as_of.tv_sec < i64::MAX - 1000 (no i64 overflow in bound + phc and tv_sec + 1000)",
              "the ShmWrite sink is a harness type recording the last record and a counter (the real ShmWriter::write is C11)"]

PROPS = {
    "C07": {
        "functions": ["clock_bound_d::shm_writer::extract_bound_from_tracking (verbatim body, Verus: formula shape/dataflow; Kani: sign)",
                      "clock_bound_d::shm_writer::ShmUpdater::process_clock_update (PHC term added exactly, Kani)"],
        "assumptions": [A["tools"], A["extract"], A["weaver"],
                        "A3 (assumed, shape-keyed): the f64 expression ((delay / 2. + dispersion + offset.abs()) * 1_000_000_000.0).ceil() as i64 denotes fbound(delay, dispersion, offset)",
                        "A4 (assumed rounding model): on meaningful reports (non-negative delay/dispersion, wire exponents in [-35,13]) fbound is >= 0, "
                        "never smaller than the exact sum*10^9 minus a relative 2^-50, and less than that sum plus the same tolerance plus 1 ns; "
                        "cross-checked only by bounded/native evaluation of the real function",
                        "chrony_candm's From<ChronyFloat> for f64 yields coef * 2^(exp-25) exactly (stand-in cf_val; powi stubbed exact under Kani)",
                        "std contract of SystemTime::elapsed (stubbed under Kani)"],
        "trusted": ["verus/extract.rs.tmpl (Tracking/ChronyFloat/std::time stand-ins, A3/A4)", "tools/extract.py + tools/verus_gen.py"],
        "groups": [
            {"kind": "verus", "gen": "extract", "obligations": [r"C07\..*"], "rlimit": 30,
             "float_dependent": ["C07.extract.formula_shape", "C07.extract.never_negative", "C07.extract.never_smaller_than_the_sum",
                                 "C07.extract.rounded_up_by_less_than_1ns", "C07.extract.body_obligations"],
             "pair": {"kind": "search", "crate": "clock-bound-d", "units": ["d_extract_search"], "features": None, "test": "verif_search_extract"}},
            dict(DGRP, harnesses=[dh("c07_nonneg"), dh("c08_update_step", obligations=["C07.update.phc_added", "C08.update.one_publication"])]),
            dict(PGRP, harnesses=[{"name": "c13_poller_iteration", "file": POL, "replayable": False, "tier": "quick", "timeout": 900,
                                   "only": r"C13\.select\.(phc_|report_with|report_without)"}]),
            PHC_NATIVE,
            EXTRACT_NATIVE,
        ],
    },
    "C08": {
        "functions": UPD_FUNCS,
        "assumptions": UPD_ASSUME,
        "trusted": ["harness/clock-bound-d/verif_updater.rs (expected_record oracle)"],
        "groups": [dict(DGRP, harnesses=[dh("c08_new_initial_state"), dh("c10_from_u16", replayable=True), dh("c08_fsm_table"), dh("c08_update_step"), dh("c08_missing_step"), dh("c08_history_collapses"), dh("c08_dispatch", timeout=900)]),
                   lemmas(r"C08\.lemma\..*")],
    },
    "C09": {
        "functions": UPD_FUNCS,
        "assumptions": UPD_ASSUME + ["history quantifier closed by induction: base+step harness from a fresh updater, plus the absorption harness "
                                     "(two consecutive non-synchronised outcomes == the second alone, observably)"],
        "trusted": ["harness/clock-bound-d/verif_updater.rs (untrusted_record oracle)"],
        "groups": [dict(DGRP, harnesses=[dh("c08_new_initial_state"), dh("c09_fresh_then_nonsync"), dh("c09_nonsync_absorbing")]),
                   dict(PGRP, harnesses=[{"name": "c13_starts_outside_grace", "file": POL, "replayable": False, "tier": "quick", "timeout": 600}]),
                   RESTART_NATIVE,
                   lemmas(r"C08\.lemma\..*")],
    },
    "C19": {
        "functions": ["clock_bound_d (bin) main(): statement `let max_drift_ppb = match args.max_drift_rate {..};` (extracted verbatim, wrapped)",
                      "clock_bound_d::shm_writer::ShmUpdater::{new, write_clock_error_bound} (drift copied verbatim: C08 obligations)"],
        "assumptions": [A["tools"], A["weaver"],
                        "arithmetic overflow is reported irrespective of build profile; in the release build the same overflow wraps silently, which is the violation the property names",
                        "plumbing: shm_writer::run -> ShmUpdater::new -> process_messages is under contract (C19.run.*); main -> thread_manager::run -> (thread spawn) -> shm_writer::run passes the u32 "
                        "by value through a `move` closure, which is not executed under Kani (no threads) and is read off the source"],
        "trusted": ["harness/clock-bound-d/verif_main.rs.tmpl (wrapper, Cli stand-in with the single field read by the statement)"],
        "groups": [
            {"kind": "kani", "crate": "clock-bound-d", "units": ["d_main"], "modpath": "verif_main",
             "harnesses": [{"name": "c19_main_ppb", "file": "harness/clock-bound-d/verif_main.rs.tmpl", "replayable": True, "timeout": 600}]},
            dict(DGRP, harnesses=[dh("c08_new_initial_state"), dh("c08_update_step"), dh("c08_missing_step"), dh("c19_run_hands_the_drift_rate_to_the_updater")]),
            CLI_NATIVE,
            {"kind": "kani", "crate": "clock-bound-shm", "units": ["shm_layout"], "modpath": "verif_layout",
             "harnesses": [sh("c17_record_constructor_stores_arguments_verbatim", "GEN", obligations=None)]},
        ],
    },
    "C10": {
        "functions": ["clock_bound_d::<ChronyClockStatus as From<u16>>::from",
                      "clock_bound_d::shm_writer::extract_bound_from_tracking (status result)"],
        "assumptions": [A["tools"], A["weaver"],
                        "std contract: SystemTime::elapsed returns Ok(age) for a reference time not in the future and Err otherwise (stubbed)",
                        "f64::powi(2.0, n) == 2^n exactly (stubbed; Kani over-approximates powi)",
                        "update interval restricted to non-negative wire floats with exponent in [-10, 30] (interval < 2^29 s); age < 2^40 s"],
        "trusted": ["harness/clock-bound-d/verif_updater.rs (oracle: exact integer comparison of the age with 8 * interval)"],
        "groups": [{"kind": "kani", "crate": "clock-bound-d", "units": ["shm_pub", "d_nolog", "d_updater"], "modpath": "shm_writer::verif_updater",
                    "pair": STATUS_PAIR,
                    "harnesses": [dh("c10_from_u16", replayable=True)] + [
                        dh("c10_extract_status_e%s%d" % ("m" if e < 0 else "p", abs(e)),
                           obligations=["C10.extract.sync_only_if_leap", "C10.extract.sync_only_if_not_future",
                                        "C10.extract.sync_only_if_fresh", "C10.extract.stale_is_free",
                                        "C10.extract.leap3_is_free", "C10.extract.bad_leap_unknown",
                                        "C10.extract.future_unknown", "C10.extract.fresh_is_sync"])
                        for e in range(-10, 31)]},
                   STATUS_NATIVE],
    },
    "C01": {
        "functions": ["composition lemma lemma_c01_containment (Verus) over the contracts of: extract_bound_from_tracking, ShmUpdater::{process_clock_update, process_missing_clock_update, "
                      "write_clock_error_bound}, run_clock_error_bound_poller, ClockErrorBound::{now, compute_bound_at}, main()'s ppm->ppb statement"],
        "assumptions": [A["tools"], A["float"], A["extract"], A["weaver"], A_LEMMA,
                        "chronyd's reported offset, root delay and root dispersion were valid when reported; the oscillator drifted no faster than the configured rate (hypotheses of the property itself)",
                        "C02 ASSUMED: the record the client evaluates is one complete published record (snapshot atomicity under concurrent update is not shown by this family of technique)",
                        "the monotonic clock measures at least the true time elapsed between the chrony report and the client's realtime read over [as_of read, client's monotonic read] "
                        "(second-order term rho^2 * dt neglected)",
                        "instants and errors are modelled as integer nanoseconds; the containment margin proved is 3 ns (1 ns ceil tolerance of the published bound, 1 ns floor of the drift term, 1 ns float slack)",
                        "A3/A4 rounding model of the daemon-side f64 expression (see C07)"],
        "trusted": ["verus/lemmas.rs.tmpl"],
        "groups": [
            lemmas(r"C01\.lemma\..*", r"C08\.lemma\..*"),
            SNAPSHOT_VERUS,
            dict(SHM_READ_GRP, harnesses=[QUIESCENT_H_C03]),
            # "across daemon restarts": the restarted writer takes a valid segment over as it is (an odd generation stays
            # odd until the next complete update), and a fresh reader starts from an empty or consistent cache
            dict(SHM_WRITE_GRP, harnesses=[sh("c04_new_takeover_or_wipe", WR, replayable=False)]),
            dict(SHM_READ_GRP, c_lib=POSIX, harnesses=[dict(OPEN_H, only=r"C16\.open\.(cache_is_empty_or_the_file_s_own_publication|ok_iff_valid_and_large_enough)")]),
            {"kind": "verus", "gen": "compute", "obligations": [r"C05\.compute\.(never_less|symmetric|exact|ok)", r"C06\.compute\.(sync_only_if|free_only_if|unknown_sticky|void_is_unknown|status_law)", r"NIX\..*"],
             "rlimit": 30, "float_dependent": FLOAT_DEP, "float_shape_clause": "C05.compute.exact",
             "float_dependent_if_shape_lost": ["C05.compute.ordered", "C14.compute.no_panic"], "pair": COMPUTE_SEARCH},
            {"kind": "verus", "gen": "extract", "obligations": [r"C07\.extract\.(formula_shape|never_smaller_than_the_sum|never_negative)"], "rlimit": 30,
             "float_dependent": ["C07.extract.formula_shape", "C07.extract.never_negative", "C07.extract.never_smaller_than_the_sum"],
             "pair": {"kind": "search", "crate": "clock-bound-d", "units": ["d_extract_search"], "features": None, "test": "verif_search_extract"}},
            {"kind": "kani", "crate": "clock-bound-d", "units": ["shm_pub", "d_nolog", "d_updater"], "modpath": "shm_writer::verif_updater",
             "harnesses": [{"name": n, "file": "harness/clock-bound-d/verif_updater.rs", "replayable": False, "tier": "quick", "timeout": 600}
                           for n in ("c07_nonneg", "c08_update_step", "c08_missing_step", "c09_fresh_then_nonsync")]},
            {"kind": "kani", "crate": "clock-bound-d", "units": ["d_main"], "modpath": "verif_main",
             "harnesses": [{"name": "c19_main_ppb", "file": "harness/clock-bound-d/verif_main.rs.tmpl", "replayable": True, "timeout": 600}]},
            {"kind": "kani", "crate": "clock-bound-shm", "units": ["shm_now"], "modpath": "verif_now",
             "harnesses": [{"name": "c12_now_reads_realtime_then_monotonic", "file": "harness/clock-bound-shm/verif_now.rs", "replayable": False, "tier": "quick", "timeout": 600}]},
            {"kind": "kani", "crate": "clock-bound-d", "units": ["d_nolog", "d_poller"], "modpath": "chrony_poller::verif_poller", "tier": "thorough",
             "harnesses": [{"name": "c13_poller_iteration", "file": "harness/clock-bound-d/verif_poller.rs", "replayable": False, "tier": "quick", "timeout": 900}]},
        ],
    },
    "C05": {
        "functions": COMPUTE_FUNCS,
        "assumptions": [A["tools"], A["float"], A["extract"], A["weaver"]],
        "trusted": COMPUTE_TRUSTED,
        "groups": compute_groups(r"C05\..*", with_now=True),
    },
    "C06": {
        "functions": COMPUTE_FUNCS,
        "assumptions": [A["tools"], A["extract"], A["weaver"]],
        "trusted": COMPUTE_TRUSTED,
        "groups": compute_groups(r"C06\..*"),
    },
    "C14": {
        "functions": COMPUTE_FUNCS,
        "assumptions": [A["tools"], A["float"], A["extract"], A["weaver"]],
        "trusted": COMPUTE_TRUSTED,
        "groups": compute_groups(r"C14\..*", with_now=True),
    },
    "C11": {
        "functions": ["clock_bound_shm::writer::<ShmWriter as ShmWrite>::write"],
        "assumptions": [A["tools"], A["seq_atomics"], A["weaver"]],
        "trusted": ["tools/weave (vlib.Workspace.apply)", "harness/clock-bound-shm/verif_write.rs (oracle next_gen, Seg layout)"],
        "groups": [dict(SHM_WRITE_GRP, harnesses=[C11_WRITE, sh("c04_new_takeover_or_wipe", WR, replayable=False)]),
                   dict(SHM_WRITE_GRP, c_lib=POSIX, harnesses=[PROBE_H]),
                   dict(SHM_READ_GRP, c_lib=POSIX, harnesses=[OPEN_H]),
                   WIPE_NATIVE,
                   lemmas(r"C11\.lemma\..*")],
    },
    "C03": {
        "functions": ["clock_bound_shm::reader::ShmReader::snapshot", "clock_bound_shm::writer::<ShmWriter as ShmWrite>::write"],
        "assumptions": [A["tools"], A["seq_atomics"], A["weaver"],
                        "call granularity only: the segment does not change while a snapshot call executes ('no update is in flight'); calls overlapping an update are C02's quantifier and are not covered",
                        "snapshot's retry loop is unwound twice with the unwinding assertion on (with a quiescent segment the first iteration returns)"],
        "trusted": ["harness/clock-bound-shm/verif_read.rs (Seg layout, reader_over)"],
        "groups": [dict(SHM_READ_GRP, harnesses=[QUIESCENT_H_C03, ONE_UPDATE_H]),
                   # readers "created before, between or after publications": the snapshot contract holds for every
                   # cache that is empty or a publication with its own generation - `new` must establish that
                   dict(SHM_READ_GRP, c_lib=POSIX, harnesses=[dict(OPEN_H, only=r"C16\.open\.(cache_is_empty_or_the_file_s_own_publication|ok_iff_valid_and_large_enough)")]),
                   SNAPSHOT_VERUS,
                   dict(SHM_WRITE_GRP, harnesses=[C11_WRITE, sh("c16_write_then_fresh_snapshot_roundtrip", WR)]),
                   lemmas(r"C03\.lemma\..*", r"C11\.lemma\..*")],
    },
    "C04": {
        "functions": ["clock_bound_shm::reader::ShmReader::{snapshot, new}", "clock_bound_shm::writer::ShmWriter::new", "clock_bound_shm::writer::<ShmWriter as ShmWrite>::write",
                      "clock_bound_shm::shm_header::ShmHeader::{read, is_valid}"],
        "assumptions": [A["tools"], A["seq_atomics"], A["weaver"], A_POSIX, A_FS_STUBS,
                        "crash *states*, not schedules: every prefix of write leaves (generation odd, record arbitrary) or (generation even, record complete) [C11 probes]; every prefix of wipe "
                        "leaves a prefix of (magic, size, version 0, generation 0, zeros), a subset of 'any bytes'; interleavings of the restarted writer with concurrent reader calls are not covered (C02)"],
        "trusted": ["harness/clock-bound-shm/verif_write.rs, verif_read.rs, posix_model.c"],
        "groups": [dict(SHM_READ_GRP, harnesses=[QUIESCENT_H_C03, ONE_UPDATE_H]),
                   SNAPSHOT_VERUS,
                   dict(SHM_READ_GRP, c_lib=POSIX, harnesses=[OPEN_H]),
                   dict(SHM_WRITE_GRP, c_lib=POSIX, harnesses=[PROBE_H]),
                   WIPE_NATIVE,
                   dict(SHM_WRITE_GRP, harnesses=[C11_WRITE, sh("c04_new_takeover_or_wipe", WR, replayable=False),
                                                  sh("c16_write_then_fresh_snapshot_roundtrip", WR)])],
    },
    "C16": {
        "functions": ["clock_bound_shm::shm_header::ShmHeader::{is_valid, read, matches_magic, has_valid_version, is_initialized, is_well_formed}",
                      "clock_bound_shm::reader::{FdGuard::new, FdGuard::drop, MmapGuard::new, MmapGuard::drop, ShmReader::new, ShmReader::snapshot}",
                      "clock_bound_shm::writer::ShmWriter::{segment_size, new}", "clock_bound_shm::writer::<ShmWriter as ShmWrite>::write"],
        "assumptions": [A["tools"], A["seq_atomics"], A["weaver"], A_POSIX, A_FS_STUBS,
                        "the FFI / Rust client open paths (clockbound_open, ClockBoundClient::new_with_path) call ShmReader::new and convert the error (conversions: C14/C17 obligations)"],
        "trusted": ["harness/clock-bound-shm/{verif_header.rs, verif_read.rs, verif_write.rs, posix_model.c}"],
        "groups": [dict(SHM_HDR_GRP, harnesses=[sh("c16_header_is_valid", HD)]),
                   dict(SHM_READ_GRP, c_lib=POSIX, harnesses=[OPEN_H]),
                   dict(SHM_WRITE_GRP, c_lib=POSIX, harnesses=[PROBE_H]),
                   WIPE_NATIVE,
                   dict(SHM_WRITE_GRP, harnesses=[sh("c16_segment_size", WR), sh("c16_write_then_fresh_snapshot_roundtrip", WR),
                                                  sh("c04_new_takeover_or_wipe", WR, replayable=False)])],
    },
    "C12": {
        "functions": ["clock_bound_shm::ClockErrorBound::now", "clock_bound_d::chrony_poller::run_clock_error_bound_poller (one iteration)"],
        "assumptions": [A["tools"], A["weaver"],
                        "clock_gettime_safe replaced by a ghost clock handing out strictly increasing ticks and logging the clock id (its body is one libc::clock_gettime call)",
                        "compute_bound_at replaced by a recorder in the now() harness (its contract is C05/C06/C14); monotonicity 'later reading => wider interval' is C05.lemma.monotone",
                        "mpsc / DispatchBox replaced by recorders in the poller harness: DispatchBox::send and Receiver::recv_timeout are stubbed (assumed: delivery of what was sent); the DispatchBox is an "
                        "all-zero value that is never looked into; ChronyOperations is a harness implementation that logs the tick of the query",
                        "one loop iteration is verified (the loop body carries no state across iterations except `poller`)"],
        "trusted": ["harness/clock-bound-shm/verif_now.rs", "harness/clock-bound-d/verif_poller.rs"],
        "groups": [
            {"kind": "kani", "crate": "clock-bound-shm", "units": ["shm_now"], "modpath": "verif_now",
             "harnesses": [sh("c12_now_reads_realtime_then_monotonic", "harness/clock-bound-shm/verif_now.rs", replayable=False)]},
            CLOCK_GRP,
            dict(PGRP, harnesses=[{"name": "c13_poller_iteration", "file": POL, "replayable": False, "tier": "quick", "timeout": 900,
                                   "only": r"C12\.poller\..*"}]),
            POLLER_NATIVE_C12,
            {"kind": "verus", "gen": "compute", "obligations": [r"C05\.lemma\.monotone", r"C05\.compute\.exact"], "rlimit": 30, "float_dependent": FLOAT_DEP,
             "float_shape_clause": "C05.compute.exact", "float_dependent_if_shape_lost": ["C05.compute.ordered", "C14.compute.no_panic"], "pair": COMPUTE_SEARCH},
        ],
    },
    "C13": {
        "functions": ["clock_bound_d::chrony_poller::{run_clock_error_bound_poller (one iteration), ClockErrorBoundPoller::default, "
                      "<ClockErrorBoundPoller as ChronyOperations>::{get_tracking, is_within_grace_period}}"],
        "assumptions": [A["tools"], A["weaver"],
                        "Instant::now replaced by a ghost monotone clock; an Instant is manufactured from its linux representation {tv_sec: i64, tv_nsec: u32} (size checked); "
                        "Instant arithmetic (checked_sub, elapsed, duration_since) is the real std code",
                        "blocking_query_uds (network I/O) replaced by its contract: an io error, a Tracking reply or another reply",
                        "get_phc_error_bound_from_path (file I/O) replaced by Ok(v) | Err",
                        "mpsc / DispatchBox recorders as for C12; one loop iteration; the history quantifier follows because the grace flag is a function of the last-answer stamp only "
                        "(C13.get_tracking.* + C13.grace.*) and the iteration contract holds for every value of that flag"],
        "trusted": ["harness/clock-bound-d/verif_poller.rs"],
        "groups": [dict(PGRP, harnesses=[{"name": n, "file": POL, "replayable": False, "tier": "quick", "timeout": 900}
                                         for n in ("c13_poller_iteration", "c13_second_poll_does_not_depend_on_the_first", "c13_grace_period_law",
                                                   "c13_starts_outside_grace", "c13_get_tracking_stamps_only_good_answers")]),
                   dict(DGRP, harnesses=[dh("c13_refid_to_u32_packs_ascii_big_endian")]),
                   PHC_NATIVE, POLLER_NATIVE_C13],
    },
    "C17": {
        "functions": ["#[repr(C)] clock_bound_shm::{ShmHeader, ClockErrorBound, ClockStatus}", "clock_bound_shm::writer::ShmWriter::segment_size",
                      "#[repr(C)] clock_bound_ffi::{clockbound_err_kind, clockbound_err, clockbound_clock_status, clockbound_now_result}",
                      "clock_bound_ffi::{<clockbound_clock_status as From<ClockStatus>>::from, <clockbound_err as From<ShmError>>::from}",
                      "clock_bound_client::<ClockBoundError as From<ShmError>>::from", "clock-bound-ffi/include/clockbound.h (CBMC)"],
        "assumptions": [A["tools"], A["weaver"], A["target"],
                        "spec/layout.json was transcribed by hand from docs/PROTOCOL.md and clockbound.h (one table, both sides checked against it)",
                        "native endianness holds by construction: the record is stored by a plain ptr::write of the repr(C) struct (checked: field bytes re-read with from_ne_bytes)",
                        "'same interval at the same moment' for two separate client calls is not expressible as one contract; what is proved instead: both clients' open and now wrappers are thin layers over the "
                        "SAME three callees (ShmReader::new, ShmReader::snapshot, ClockErrorBound::now, replaced by recorders in these harnesses): open opens once and reads nothing (empty cache), now takes exactly "
                        "one snapshot and evaluates exactly that record, interval/status/error kind/errno are passed through unchanged on both sides"],
        "trusted": ["spec/layout.json", "tools/layout_gen.py"],
        "groups": [
            {"kind": "kani", "crate": "clock-bound-shm", "units": ["shm_layout"], "modpath": "verif_layout",
             "harnesses": [sh("c17_segment_layout", "GEN", obligations=None), sh("c17_status_encoding_in_memory", "GEN", obligations=None),
                           sh("c17_record_constructor_stores_arguments_verbatim", "GEN", obligations=None)]},
            dict(SHM_HDR_GRP, harnesses=[sh("c16_header_layout", HD)]),
            dict(SHM_WRITE_GRP, harnesses=[sh("c16_segment_size", WR)]),
            {"kind": "kani", "crate": "clock-bound-ffi", "units": ["ffi_layout"], "modpath": "verif_ffi",
             "harnesses": [sh("c17_ffi_layout", "GEN", obligations=None), sh("c17_ffi_status_conversion", "GEN", obligations=None),
                           sh("c14_ffi_error_conversion", "GEN", obligations=None)]},
            {"kind": "kani", "crate": "clock-bound-client", "units": ["shm_pub", "client_conv"], "modpath": "verif_client",
             "harnesses": [sh(n, "harness/clock-bound-client/verif_client.rs", replayable=False)
                           for n in ("c14_client_error_conversion", "c17_client_open_is_thin", "c17_client_now_is_thin")]},
            {"kind": "kani", "crate": "clock-bound-ffi", "units": ["shm_pub", "ffi_glue"], "modpath": "verif_ffi_glue",
             "c_lib": "harness/clock-bound-ffi/cstr_model.c",
             "harnesses": [sh(n, "harness/clock-bound-ffi/verif_ffi_glue.rs", replayable=False)
                           for n in ("c17_ffi_open_is_thin", "c17_ffi_now_is_thin")]},
            {"kind": "cbmc"},
        ],
    },
    "C18": {
        "functions": ["clock_bound_shm::reader::ShmReader::snapshot"],
        "assumptions": [A["tools"], A["seq_atomics"], A["weaver"],
                        "adversarial writer modelled by woven environment steps that overwrite version, generation and record with nondeterministic values before every shared access",
                        "UNBOUNDED (Verus): snapshot's verbatim body with the shared segment replaced by external functions without postconditions (every load / record copy may return anything): the call "
                        "terminates - the retry loop has the strictly decreasing measure `retries`, starting at the budget 1 000 000 - never panics or overflows, and fails only with SegmentNotInitialized; "
                        "rewrites: the two `unsafe { &*self.x }` dereferences and the `unsafe { ..read_volatile() }` block (stand-in calls), and the spliced loop contract",
                        "BOUNDED (Kani, not counted as proved): the per-call access counts on the woven real code with the retry budget overridden to 3 and the loop fully unwound"],
        "trusted": ["harness/clock-bound-shm/verif_read.rs (environment_step, ghost counters)", "verus/snapshot.rs.tmpl (stand-ins for the shared segment)", "tools/verus_gen.py gen_snapshot (3 rewrites + loop contract)"],
        "groups": [SNAPSHOT_VERUS,
                   dict(SHM_READ_GRP, harnesses=[QUIESCENT_H,
                                                 ADVERSARIAL_H])],
    },
}
