"""Registry: weave units (what is inserted where), and per property the obligation groups.

Everything here is data; the driver is tools/check.py.  Harness sources are under /verif/harness,
Verus templates under /verif/verus.
"""
from vlib import Edit

# ---------------------------------------------------------------------------------------------
# weave units
# ---------------------------------------------------------------------------------------------
NOLOG_MACROS = (
    "#[cfg(kani)]\n#[allow(unused_macros)]\nmacro_rules! debug { ($($t:tt)*) => {{}}; }\n"
    "#[cfg(kani)]\n#[allow(unused_macros)]\nmacro_rules! error { ($($t:tt)*) => {{}}; }\n"
    "#[cfg(kani)]\n#[allow(unused_macros)]\nmacro_rules! info { ($($t:tt)*) => {{}}; }\n"
)


def child_mod(file, modname):
    """Append `#[cfg(kani)] #[path] mod <modname>;` to `file` (harness becomes a child module, so
    private items of the module under contract are reachable)."""
    return Edit(file, None, "append",
                f"\n#[cfg(kani)]\n#[path = \"{modname}.rs\"]\nmod {modname};\n",
                why="harness module (cfg(kani) only)")


UNITS = {
    # ---- clock-bound-shm ------------------------------------------------------------------
    "shm_write": {
        "crate": "clock-bound-shm", "features": "writer",
        "files": [("clock-bound-shm/src/verif_write.rs", "harness/clock-bound-shm/verif_write.rs")],
        "edits": [
            child_mod("clock-bound-shm/src/writer.rs", "verif_write"),
            Edit("clock-bound-shm/src/writer.rs", "            self.ceb.write(*ceb);\n", "before",
                 "            #[cfg(kani)]\n            verif_write::at_copy(self, 0);\n",
                 why="ghost probe: stored generation just before the record copy"),
            Edit("clock-bound-shm/src/writer.rs", "            self.ceb.write(*ceb);\n", "after",
                 "            #[cfg(kani)]\n            verif_write::at_copy(self, 1);\n",
                 why="ghost probe: stored generation just after the record copy"),
        ],
    },
}

# ---------------------------------------------------------------------------------------------
# standing assumptions (DESIGN.md section 8), referenced by key
# ---------------------------------------------------------------------------------------------
A = {
    "tools": "Kani 0.68/CBMC 6.11, Verus 0.2026.09.13/Z3 and the rustc front ends are sound",
    "seq_atomics": "atomics are treated as sequential operations by Kani (single writer, program order only); "
                   "no weak-memory or interleaving reasoning (that is C02, not claimed)",
    "weaver": "the weaver's cfg(kani)-guarded insertions do not change the behaviour of the code under contract "
              "(weave log in this file); tracing log macros are no-ops under cfg(kani)",
    "target": "target = x86_64-unknown-linux-gnu",
}

# ---------------------------------------------------------------------------------------------
# properties
# ---------------------------------------------------------------------------------------------
PROPS = {
    "C11": {
        "functions": ["clock_bound_shm::writer::<ShmWriter as ShmWrite>::write"],
        "assumptions": [A["tools"], A["seq_atomics"], A["weaver"]],
        "trusted": ["tools/weave (vlib.Workspace.apply)", "harness/clock-bound-shm/verif_write.rs (oracle next_gen, Seg layout)"],
        "groups": [
            {"kind": "kani", "crate": "clock-bound-shm", "units": ["shm_write"],
             "harnesses": [
                 {"name": "c11_write_contract", "file": "harness/clock-bound-shm/verif_write.rs",
                  "also": ["C11.write.gen_odd_before_copy", "C11.write.gen_odd_after_copy"],
                  "replayable": True, "tier": "quick", "timeout": 300},
             ]},
        ],
    },
}
