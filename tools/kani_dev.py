#!/usr/bin/env python3
"""dev helper: weave units and run named harnesses once, printing per-harness results.
usage: kani_dev.py <crate> <unit,unit> <harness> [harness...] [--timeout N] [--solver S]"""
import sys, os, json
sys.path.insert(0, os.path.dirname(os.path.abspath(__file__)))
import vlib, registry, check
args = sys.argv[1:]
timeout = 600; solver = None
if "--timeout" in args:
    i = args.index("--timeout"); timeout = int(args[i+1]); del args[i:i+2]
if "--solver" in args:
    i = args.index("--solver"); solver = args[i+1]; del args[i:i+2]
crate, units, hs = args[0], args[1].split(","), args[2:]
ws = vlib.Workspace("dev")
try:
    check.weave_units(ws, units)
    feats = next((registry.UNITS[u].get("features") for u in units if registry.UNITS[u].get("crate") == crate), None)
    res, meta, raw = vlib.kani_run(ws, crate, hs, features=feats, timeout=timeout + 300, harness_timeout=timeout, solver=solver, modpath=os.environ.get("MODPATH"), c_lib=os.environ.get("CLIB"))
    print(meta)
    if not res:
        print(raw[-6000:])
    for k, r in res.items():
        print(k, r["status"], "checks", r["checks"], "time", r["time_s"], "covers", r["covers_sat"], "/", r["covers"])
        for f in r["failed"]:
            print("   FAILED:", f["desc"], f["file"], f["line"])
finally:
    ws.cleanup()
