#!/usr/bin/env python3
"""Prompt for an independent seeding sub-agent: it gets the text of ONE property and a scratch worktree,
nothing from /verif.   usage: seed_prompt.py <id> [<worktree-tag>]  (writes to stdout)"""
import json
import sys

pid = sys.argv[1]
tag = sys.argv[2] if len(sys.argv) > 2 else pid
angle = sys.argv[3] if len(sys.argv) > 3 else ""
p = next(json.loads(l) for l in open("/verif/properties.jsonl") if json.loads(l)["id"] == pid)
prop = f"{p['title']}\n\n{p['statement']}\n\nQuantifier: {(p.get('quantifier') or {}).get('text', '')}\nAnchored in: {json.dumps(p.get('anchors'))}\n"
print(f"""You are helping to evaluate verification tooling for the open-source project aws/clock-bound (a daemon that polls chronyd and publishes clock-error bounds through a seqlock-style shared-memory segment, plus Rust and C client libraries).

Your working directory is /tmp/seed-{tag} : a scratch git worktree of the repository at its current HEAD. Work ONLY inside /tmp/seed-{tag} and write your deliverables to /tmp/seed-{tag}-out/ . Do NOT read or list /verif, /root/.vp, /repo or any other /tmp/seed-* directory: your result must be independent of anything that exists there. The sandbox has no network: always pass --offline to cargo (e.g. `cargo test --workspace --offline`). Use a target dir inside your worktree (the default) and do not commit anything.

Here is one semantic property that the project is supposed to satisfy:

---
{prop}---

TASK: produce ONE realistic source change to aws/clock-bound (the kind of bug a maintainer could plausibly introduce in a refactor, an optimisation, a "simplification" or a feature tweak) that BREAKS this property, while
  (1) the workspace still compiles, and
  (2) the existing test suite still passes unedited with your change applied (`cargo test --workspace --offline` : all tests green), and
  (3) the breakage needs something SPECIFIC to manifest - a particular interleaving, a crash or fault at a particular point, a multi-step sequence of operations, an unusual input value / boundary, or two cooperating sites that each look fine alone - NOT something ordinary use would expose at once.
Prefer a subtle change (a boundary, a sign, an ordering, a unit, a missing case, a wrong field, an off-by-one, a dropped step) over a gross one. Look beyond the most obviously anchored function: a helper it calls, a caller that feeds it, a constant, a type conversion, an error path, or state kept between calls are all fair game, and so is a change spread over two places. {angle} Change only files under clock-bound-*/src or clock-bound-ffi/include; do not touch tests, Cargo.toml or Cargo.lock.

Also produce a DEMONSTRATION that is separate from the change: a new test (given as a patch that only ADDS a test function or a new test file) or a small program, which FAILS with your change applied and PASSES on the unchanged tree. Verify both facts yourself by running it both ways.

Deliverables in /tmp/seed-{tag}-out/ :
  - patch.diff : `git diff` of the breaking source change only (apply with `git apply`), nothing else in it
  - demo.diff (a patch adding the demonstration test; must apply on top of the unchanged tree AND on top of patch.diff) or demo.rs / demo.sh with exact run instructions
  - NOTES.md : which sentence of the property it breaks, what exactly it needs in order to manifest (input / sequence / timing), the exact commands you ran and their observed results (existing tests with the change: pass; demo without change: pass; demo with change: fail)
When you are done, leave the worktree with NEITHER the change NOR the demo applied (git checkout -- . ; remove untracked files you added), and reply with a 5-line summary.""")
