#!/usr/bin/env python3
"""Render seeded/RESULTS.md from seeded/*/meta.json and check_output.txt."""
import glob, json, os, re
V = os.path.dirname(os.path.dirname(os.path.abspath(__file__)))
print("# Seeded breaking changes and the checks that catch them\n")
print("Each change compiles, passes the 55 existing tests, and has a demonstration that fails with it and passes without it")
print("(confirmed in a scratch worktree, see meta.json). `exit 1` = VIOLATION reported, `exit 2` = undecided, `exit 0` = missed.\n")
print("| seeded change | breaks | needs, to manifest | check -> exit | failed obligation(s) |")
print("|---|---|---|---|---|")
for d in sorted(glob.glob(os.path.join(V, "seeded", "*", ""))):
    mp = os.path.join(d, "meta.json")
    if not os.path.exists(mp):
        continue
    m = json.load(open(mp))
    out = open(os.path.join(d, "check_output.txt")).read() if os.path.exists(os.path.join(d, "check_output.txt")) else ""
    runs = re.findall(r"### ./check (\S+) -> exit (\d+)", out)
    fails = re.findall(r"failed obligations: (.*)", out)
    und = re.findall(r"UNDECIDED property=\S+ obligation=(\S+)", out)
    print(f"| {os.path.basename(d.rstrip('/'))}: {m.get('summary','')} | {m['property']} | {m.get('needs','')} | "
          f"{', '.join(f'{p} -> {rc}' for p, rc in runs)} | {'; '.join(fails)[:300]}{(' UNDECIDED: ' + ', '.join(und)) if und else ''} |")
