#!/bin/bash
# usage: seeded_run.sh [id-dir ...] : apply each kept seeded change to /repo, run the checks named in its meta.json
# (default: the property it breaks), undo it, and (re)write seeded/RESULTS.md
cd "$(dirname "$0")/.." || exit 2
[ -z "$(git -C /repo status --porcelain)" ] || { echo "/repo has uncommitted changes"; exit 2; }
dirs="$@"; [ -n "$dirs" ] || dirs=$(ls -d seeded/*/ | sed 's#/$##')
for d in $dirs; do
  [ -f "$d/patch.diff" ] || continue
  props=$(python3 -c "import json,sys; m=json.load(open('$d/meta.json')); print(' '.join(m.get('checks_to_run') or [m['property']]))")
  git -C /repo apply "$PWD/$d/patch.diff" || { echo "$d: patch does not apply"; continue; }
  : > "$d/check_output.txt"
  for p in $props; do
    s=$(date +%s); out=$(VERIF_EVIDENCE_DIR=/var/tmp/verif-seeded-evidence ./check "$p" 2>&1); rc=$?; e=$(date +%s)
    echo "### ./check $p -> exit $rc ($((e-s)) s)" >> "$d/check_output.txt"
    echo "$out" | grep -E "^(VIOLATION|UNDECIDED|KNOWN-FINDING|  failed|\[)" >> "$d/check_output.txt"
    echo "$d $p rc=$rc $((e-s))s"
  done
  git -C /repo checkout -- .
done
python3 tools/seeded_table.py > seeded/RESULTS.md
