#!/bin/bash
# usage: seed_confirm.sh <id> <outdir> : confirm a candidate breaking change in a scratch worktree
#  (1) patch alone: existing tests pass   (2) demo alone: passes   (3) patch + demo: fails
id="$1"; out="$2"; wt="/tmp/confirm-$id"
git -C /repo worktree remove --force "$wt" 2>/dev/null; rm -rf "$wt"
git -C /repo worktree add -q --detach "$wt" HEAD || exit 2
cd "$wt" || exit 2
run_tests() { cargo test --workspace --offline 2>&1 | grep -E "^test result|^test .* FAILED|error(\[|:)" ; }
summ() { awk '/^test result/ {p+=$4; f+=$6} END {printf "passed=%d failed=%d", p, f}'; }
echo "== (1) patch only: existing tests"
git apply "$out/patch.diff" || { echo "patch does not apply"; exit 3; }
r1=$(run_tests); echo "$r1" | summ; echo; echo "$r1" | grep -E "FAILED|error" | head -5
echo "== (3) patch + demo"
if [ -f "$out/demo.diff" ]; then git apply "$out/demo.diff" || { echo "demo does not apply on patch"; }; fi
r3=$(run_tests); echo "$r3" | summ; echo; echo "$r3" | grep -E "FAILED|error" | head -5
echo "== (2) demo only"
git checkout -q -- . ; git clean -fdq -e target
if [ -f "$out/demo.diff" ]; then git apply "$out/demo.diff" || echo "demo does not apply on clean tree"; fi
r2=$(run_tests); echo "$r2" | summ; echo; echo "$r2" | grep -E "FAILED|error" | head -5
cd /; git -C /repo worktree remove --force "$wt"
