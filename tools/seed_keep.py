#!/usr/bin/env python3
"""usage: seed_keep.py <name> <property> <outdir> <summary> <needs> [checks_to_run ...]
Copy a confirmed candidate into /verif/seeded/<name>/ with its meta.json."""
import json, os, shutil, sys
name, prop, out, summary, needs = sys.argv[1:6]
checks = sys.argv[6:] or [prop]
V = os.path.dirname(os.path.dirname(os.path.abspath(__file__)))
d = os.path.join(V, "seeded", name)
os.makedirs(d, exist_ok=True)
for f in os.listdir(out):
    if os.path.isfile(os.path.join(out, f)):
        shutil.copy(os.path.join(out, f), os.path.join(d, f))
json.dump({"property": prop, "summary": summary, "needs": needs, "checks_to_run": checks,
           "origin": "independent sub-agent given only the property text and a scratch worktree of /repo at HEAD (no access to /verif)",
           "confirmed": "tools/seed_confirm.sh in a scratch worktree: patch alone -> 55 tests (+doctest) pass; demo alone -> passes; patch + demo -> demo fails",
           }, open(os.path.join(d, "meta.json"), "w"), indent=1)
print("kept", d)
