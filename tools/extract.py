#!/usr/bin/env python3
"""Mechanical extraction of Rust items from /repo's working tree (verbatim text, brace matched).

Only lexical work is done here: find an item by a header regex, find its matching closing brace
while skipping comments / string / char literals, and return the exact source slice.  Every rewrite
applied to the slice afterwards is listed by the caller in the extraction log.
"""
import re


class ExtractError(Exception):
    pass


def _skip_trivia(s, i):
    """If s[i:] starts a comment/string/char literal, return index just after it, else None."""
    c = s[i]
    if s.startswith("//", i):
        j = s.find("\n", i)
        return len(s) if j < 0 else j
    if s.startswith("/*", i):
        depth, j = 1, i + 2
        while j < len(s) and depth:
            if s.startswith("/*", j):
                depth += 1
                j += 2
            elif s.startswith("*/", j):
                depth -= 1
                j += 2
            else:
                j += 1
        return j
    if c == '"':
        j = i + 1
        while j < len(s):
            if s[j] == "\\":
                j += 2
                continue
            if s[j] == '"':
                return j + 1
            j += 1
        return j
    m = re.match(r"b?r(#*)\"", s[i:])
    if m and (i == 0 or not (s[i - 1].isalnum() or s[i - 1] == "_")):
        end = '"' + m.group(1)
        j = s.find(end, i + len(m.group(0)))
        return len(s) if j < 0 else j + len(end)
    if c == "'":
        # char literal or lifetime
        m = re.match(r"'(\\.[^']*|[^'\\])'", s[i:])
        if m:
            return i + len(m.group(0))
        return i + 1
    return None


def match_brace(s, i):
    """s[i] == '{' -> index of the matching '}'."""
    assert s[i] == "{"
    depth, j = 0, i
    while j < len(s):
        k = _skip_trivia(s, j)
        if k is not None:
            j = k
            continue
        if s[j] == "{":
            depth += 1
        elif s[j] == "}":
            depth -= 1
            if depth == 0:
                return j
        j += 1
    raise ExtractError("unbalanced braces")


def find_open_brace(s, i):
    j = i
    while j < len(s):
        k = _skip_trivia(s, j)
        if k is not None:
            j = k
            continue
        if s[j] == "{":
            return j
        if s[j] == ";":
            return -j  # item without body
        j += 1
    raise ExtractError("no opening brace")


def item(src, header_re, what, nth=0):
    """Return (start, body_open, end) of the nth item whose header matches header_re (multiline regex
    anchored at a line start).  `end` is one past the closing brace."""
    ms = [m for m in re.finditer(header_re, src, re.M) if not _in_trivia(src, m.start())]
    if len(ms) <= nth:
        raise ExtractError(f"{what}: header not found ({header_re})")
    if nth == 0 and len(ms) > 1 and not header_re.endswith("#first"):
        raise ExtractError(f"{what}: header ambiguous ({len(ms)} matches)")
    m = ms[nth]
    ob = find_open_brace(src, m.end() - 1 if src[m.end() - 1] == "{" else m.end())
    if ob < 0:
        raise ExtractError(f"{what}: item has no body")
    cb = match_brace(src, ob)
    return m.start(), ob, cb + 1


def _in_trivia(s, pos):
    """True if pos lies inside a comment or literal (scan from the start of the file)."""
    j = 0
    while j < pos:
        k = _skip_trivia(s, j)
        if k is not None:
            if k > pos:
                return True
            j = k
        else:
            j += 1
    return False


def fn_parts(src, name, what=None, within=None):
    """(signature_text, body_text_with_braces) of `fn name(`; `within` optionally restricts the search
    to the slice of an enclosing item (start, end)."""
    base = 0
    s = src
    if within:
        base = within[0]
        s = src[within[0]:within[1]]
    start, ob, end = item(s, r"^[ \t]*(?:pub(?:\([a-z]+\))?\s+)?(?:const\s+)?(?:unsafe\s+)?fn\s+%s\s*[(<]" % re.escape(name),
                          what or f"fn {name}")
    sig = s[start:ob].rstrip()
    body = s[ob:end]
    return sig, body


def statement(src, start_literal, end_literal, what):
    """Verbatim slice from the unique occurrence of start_literal to the end of the first following
    end_literal."""
    if src.count(start_literal) != 1:
        raise ExtractError(f"{what}: start anchor found {src.count(start_literal)} times")
    i = src.index(start_literal)
    j = src.find(end_literal, i)
    if j < 0:
        raise ExtractError(f"{what}: end anchor not found")
    return src[i:j + len(end_literal)]


def strip_attrs_and_docs(text):
    """Drop `#[...]` attribute lines and `///` doc lines (used for type definitions only)."""
    out = []
    for line in text.split("\n"):
        t = line.strip()
        if t.startswith("#[") or t.startswith("///"):
            continue
        out.append(line)
    return "\n".join(out)
