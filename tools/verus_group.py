#!/usr/bin/env python3
"""Verus obligation groups: generate the single file from /repo's working tree, run Verus, map each
diagnostic to a named obligation."""
import json
import os
import re
import shutil
import subprocess
import tempfile
import time

import vlib
import verus_gen
from vlib import Undecided

VERIFICATION_FAILURES = (
    "postcondition not satisfied", "precondition not satisfied", "assertion failed",
    "possible arithmetic underflow/overflow", "possible division by zero", "invariant not satisfied",
    "decreases not satisfied", "possible bit shift underflow/overflow", "recommendation not met",
    "constant evaluates to", "ensures clause", "unreachable",
)


def _run_verus(path, rlimit, timeout, multiple_errors=60):
    cmd = ["verus", os.path.basename(path), "--output-json", "--time", "--rlimit", str(rlimit),
           "--multiple-errors", str(multiple_errors), "--triggers-mode", "silent", "--error-format=json",
           "--num-threads", "8"]
    t0 = time.time()
    p = subprocess.Popen(cmd, cwd=os.path.dirname(path), stdout=subprocess.PIPE, stderr=subprocess.PIPE,
                         text=True, errors="replace", start_new_session=True)
    timed_out = False
    try:
        out, err = p.communicate(timeout=timeout)
    except subprocess.TimeoutExpired:
        timed_out = True
        os.killpg(p.pid, 9)
        out, err = p.communicate()
    js = None
    try:
        js = json.loads(out[out.index("{"):])
    except Exception:
        pass
    diags = []
    for line in err.splitlines():
        line = line.strip()
        if line.startswith("{"):
            try:
                diags.append(json.loads(line))
            except Exception:
                pass
    return {"cmd": " ".join(["verus", "<generated>/" + os.path.basename(path)] + cmd[2:]), "json": js,
            "diags": diags, "stderr": err, "stdout": out, "timed_out": timed_out, "rc": p.returncode,
            "wall_s": round(time.time() - t0, 2)}


def _classify(diags, by_line, body_ranges, fn_ranges):
    failed, undecided, other_errors = {}, {}, []
    for d in diags:
        if d.get("level") != "error":
            continue
        msg = d.get("message", "")
        if msg.startswith("aborting due to"):
            continue
        spans = d.get("spans", [])
        prim = [s for s in spans if s.get("is_primary")] or spans
        line = prim[0]["line_start"] if prim else None
        if "rlimit" in msg or "Resource limit" in msg:
            hit = False
            for (a, b, names) in fn_ranges:
                if line is not None and a <= line <= b:
                    for n in names:
                        undecided[n] = "solver resource limit (rlimit) exceeded"
                    hit = True
            if not hit:
                other_errors.append(msg)
            continue
        if any(msg.startswith(v) or v in msg for v in VERIFICATION_FAILURES):
            name = None
            if "postcondition" in msg:
                for s in spans:
                    if (s.get("label") or "").startswith("failed this postcondition") and s["line_start"] in by_line:
                        name = by_line[s["line_start"]]
            if name is None and line is not None:
                if line in by_line and "postcondition" not in msg:
                    name = by_line[line]
                for (a, b, n) in body_ranges:
                    if name is None and a <= line <= b:
                        name = n
            if name is None and line is not None:
                # a postcondition of an item whose ensures line carries the marker a few lines up
                for s in spans:
                    for (a, b, n) in body_ranges:
                        if a <= s["line_start"] <= b:
                            name = name or n
            if name is None:
                other_errors.append(f"{msg} (line {line})")
            else:
                failed.setdefault(name, []).append({"message": msg, "line": line,
                                                    "text": (prim[0].get("text") or [{}])[0].get("text", "") if prim else ""})
            continue
        other_errors.append(f"{msg} (line {line})")
    return failed, undecided, other_errors


def run(prop, grp, tier, obligations, undecided, failures, checker_cmds, ev_extra):
    gen = verus_gen.GENERATORS[grp["gen"]]
    os.makedirs(vlib.SCRATCH_ROOT, exist_ok=True)
    d = tempfile.mkdtemp(prefix=f"verif-{prop}-verus-", dir=vlib.SCRATCH_ROOT)
    try:
        path = os.path.join(d, grp["gen"] + ".rs")
        log = gen(path)  # raises Undecided on a lost anchor
        ev_extra.setdefault("extraction_log", []).extend(log)
        by_line, body_ranges, names = verus_gen.obligation_map(path)
        gen_lines = open(path).read().split("\n")
        clause_text = {}
        for ln, nm in sorted(by_line.items()):
            # (a clause may be tagged on several lines, e.g. a postcondition and the loop invariant that carries it: show the first)
            clause_text.setdefault(nm, re.sub(r"\s*//@.*$", "", gen_lines[ln - 1]).strip().rstrip(",")[:400])
        for (a, b, nm) in body_ranges:
            # first line of the region's item (signature / lemma header) as a hint of what is under contract
            hdr = next((l.strip() for l in gen_lines[a:b] if l.strip() and not l.strip().startswith("//")), "")
            if hdr in ("{", ""):
                hdr = next((gen_lines[i].strip() for i in range(a - 1, max(-1, a - 40), -1)
                            if re.match(r"\s*(pub(\([a-z]+\))? )?(proof |exec |const )?fn ", gen_lines[i])), hdr)
            clause_text.setdefault(nm, ("body obligations of: " + hdr)[:400])
        fn_ranges = verus_gen.fn_ranges(path)
        want = grp.get("obligations")  # restrict to the obligations this property claims
        def wanted(n):
            return want is None or any(re.fullmatch(w, n) for w in want)
        r = _run_verus(path, grp.get("rlimit", 30), grp.get("timeout", 300))
        checker_cmds.append(r["cmd"])
        failed, und, other = _classify(r["diags"], by_line, body_ranges, fn_ranges)
        if und and not r["timed_out"]:
            # escalate once before giving up on those obligations
            r2 = _run_verus(path, grp.get("rlimit_max", 600), grp.get("timeout_max", 900))
            checker_cmds.append(r2["cmd"])
            failed, und, other = _classify(r2["diags"], by_line, body_ranges, fn_ranges)
            r = r2
        vr = (r["json"] or {}).get("verification-results", {})
        ev_extra.setdefault("verus_runs", []).append({
            "file": grp["gen"] + ".rs", "verified_functions": vr.get("verified"), "errors": vr.get("errors"),
            "wall_s": r["wall_s"], "smt_ms": ((r["json"] or {}).get("times-ms", {}).get("smt", {}) or {}).get("total"),
            "rlimit": grp.get("rlimit", 30)})
        broken = r["timed_out"] or r["json"] is None or other or vr.get("encountered-vir-error")
        if broken:
            why = ("timeout" if r["timed_out"] else
                   ("unsupported construct / front-end error: " + "; ".join(other)[:400]) if other else
                   "verus produced no result")
            for n in names:
                if wanted(n) and not n.startswith("CANARY."):
                    obligations.append({"name": n, "engine": "verus", "backend": "z3", "result": "undecided", "reason": why})
            und_entry = {"obligation": grp["gen"], "reason": why, "detail": r["stderr"][-2000:]}
            # The changed function fell outside the verifier's reach.  A bounded stand-in (native
            # evaluation of the same clauses on the real function) may still produce a failing input;
            # that is reported as a violation found by the bounded check, never as a proof result.
            if grp.get("pair") and grp["pair"].get("kind") == "search":
                failures.append({
                    "prop": prop, "group": grp, "harness": {"name": grp["gen"], "replayable": False},
                    "failed": [], "obligations": [], "verus": {"unprocessable": why},
                    "ws": "done", "float_dependent": [], "out_of_reach": True, "undecided_entry": und_entry,
                    "candidates": [n for n in names if wanted(n) and not n.startswith("CANARY.") and not n.startswith("NIX.")],
                })
            else:
                undecided.append(und_entry)
            return
        # vacuity canaries must fail; they are not obligations
        canaries = [n for n in names if n.startswith("CANARY.")]
        silent = [n for n in canaries if n not in failed and n not in und]
        names = [n for n in names if not n.startswith("CANARY.")]
        for n in canaries:
            failed.pop(n, None)
            und.pop(n, None)
        ev_extra.setdefault("vacuity_canaries", []).append(
            {"file": grp["gen"] + ".rs", "canaries": canaries, "verified_unexpectedly": silent})
        if silent:
            why = "vacuity canary verified `false`: contradictory axioms or precondition (" + ", ".join(silent) + ")"
            for n in names:
                if wanted(n):
                    obligations.append({"name": n, "engine": "verus", "backend": "z3", "result": "undecided", "reason": why})
            undecided.append({"obligation": grp["gen"], "reason": why})
            return
        smt_s = (((r["json"] or {}).get("times-ms", {}).get("smt", {}) or {}).get("total") or 0) / 1000.0
        per = smt_s / max(1, len(names))
        float_dep = set(grp.get("float_dependent", []))
        shape = grp.get("float_shape_clause")
        if shape and shape in failed:
            # the shape-keyed axiom no longer matches the expression: everything downstream of the
            # drift term is then unconstrained for Verus, including the body-internal obligations
            float_dep |= set(grp.get("float_dependent_if_shape_lost", []))
        for n in names:
            if not wanted(n):
                continue
            o = {"name": n, "engine": "verus", "backend": "z3", "solver_s": round(per, 3), "completeness": "complete",
                 "contract": clause_text.get(n, "")}
            if n in failed:
                o["result"] = "failed"
                o["verifier_messages"] = failed[n]
            elif n in und:
                o["result"] = "undecided"
                o["reason"] = und[n]
            else:
                o["result"] = "discharged"
            if n in float_dep:
                o["rests_on"] = grp.get("needs_input_reason") or "assumed float axioms A1/A2 (float_axioms module)"
            obligations.append(o)
        for n, why in und.items():
            if wanted(n):
                undecided.append({"obligation": n, "reason": why})
        bad = [n for n in failed if wanted(n)]
        if bad:
            gen_text = open(path).read()
            failures.append({
                "prop": prop, "group": grp, "harness": {"name": grp["gen"], "replayable": False},
                "failed": bad, "obligations": sorted(bad), "verus": {n: failed[n] for n in bad},
                "generated_file_excerpt": None, "ws": "done", "float_dependent": sorted(float_dep & set(bad)),
            })
    finally:
        shutil.rmtree(d, ignore_errors=True)
