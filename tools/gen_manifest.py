#!/usr/bin/env python3
"""Regenerate MANIFEST.json from tools/manifest_data.py (kept as data so it is always schema-valid)."""
import json, os, sys
sys.path.insert(0, os.path.dirname(os.path.abspath(__file__)))
import manifest_data as md
try:
    import jsonschema
except ImportError:
    jsonschema = None

V = os.path.dirname(os.path.dirname(os.path.abspath(__file__)))
m = md.manifest()
schema = json.load(open("/root/.vp/MANIFEST.schema.json")) if os.path.exists("/root/.vp/MANIFEST.schema.json") else None
if schema and jsonschema:
    jsonschema.validate(m, schema)
props = [json.loads(l)["id"] for l in open(os.path.join(V, "properties.jsonl"))]
claimed = [c["property_id"] for c in m["checks"]]
na = [n["property_id"] for n in m.get("not_applicable", [])]
assert sorted(claimed + na) == sorted(props), (claimed, na)
json.dump(m, open(os.path.join(V, "MANIFEST.json"), "w"), indent=1)
print("MANIFEST.json written:", len(claimed), "claimed,", len(na), "not applicable")
