#!/usr/bin/env python3
"""Generators of the single-file Verus inputs: verbatim function text cut out of /repo's working
tree, pasted between the hand-written contract / stand-in / lemma pieces kept in /verif/verus."""
import os
import re

import extract as ex
from vlib import REPO, VERIF, Undecided


def _read(rel):
    with open(os.path.join(REPO, rel)) as f:
        return f.read()


def _rewrite(text, rules, log, what):
    for pat, rep, why in rules:
        new, n = re.subn(pat, rep, text)
        if n:
            log.append({"item": what, "rewrite": f"{pat} -> {rep}", "count": n, "why": why})
        text = new
    return text


def _named_return(sig, log, what):
    m = re.search(r"->\s*(.+?)\s*$", sig, re.S)
    if not m:
        raise ex.ExtractError(f"{what}: no return type in signature")
    log.append({"item": what, "rewrite": "return type named: -> (res: T)", "count": 1,
                "why": "Verus needs a name for the result in `ensures`"})
    return sig[:m.start()] + "-> (res: " + m.group(1) + ")"


LIBC = (r"\blibc::timespec\b", "timespec", "path prefix removed: stand-in `timespec` has the same two i64 fields")


def module_consts(src, log, skip=()):
    """Module-level constants with literal initialisers (or TimeSpec::new(lit, lit)), re-emitted as Verus
    `exec const`s whose value is known to the proof.  A harmless 'introduce a named constant'
    refactoring then keeps verifying.  Anything else is left out (an unresolved name -> exit 2)."""
    out = []
    for m in re.finditer(r"^(?:pub(?:\([a-z]+\))? )?const ([A-Z][A-Z0-9_]*): ([A-Za-z0-9_:]+) = ([^;]+);[ \t]*$", src, re.M):
        name, ty, init = m.group(1), m.group(2), m.group(3).strip()
        if name in skip:
            continue
        if re.fullmatch(r"-?[0-9][0-9_]*(?:\.[0-9_]*)?(?:[eE][+-]?[0-9_]+)?(?:_?[iuf](?:8|16|32|64|128|size))?", init) or re.fullmatch(r"-?[0-9][0-9_]*\.[0-9_]*", init):
            out.append(f"exec const {name}: {ty} ensures {name} == {init} {{ {init} }}")
        else:
            mt = re.fullmatch(r"TimeSpec::new\(\s*(-?[0-9_]+)\s*,\s*(-?[0-9_]+)\s*\)", init)
            if mt and ty == "TimeSpec":
                out.append(f"exec const {name}: TimeSpec ensures {name}.0.tv_sec == {mt.group(1)}, {name}.0.tv_nsec == {mt.group(2)} {{ {init} }}")
            else:
                continue
        log.append({"item": f"const {name}", "rewrite": "module-level constant re-emitted as `exec const` with its literal value as postcondition",
                    "count": 1, "why": "so that named constants introduced by a refactoring are known to the proof"})
    return "\n".join(out)


def nix_source_path(log):
    """src/sys/time.rs of the nix version that Cargo.lock pins for clock-bound-shm."""
    lock = _read("Cargo.lock")
    m = re.search(r'name = "clock-bound-shm"\nversion = "[^"]*"\ndependencies = \[(.*?)\]', lock, re.S)
    if not m:
        raise ex.ExtractError("Cargo.lock: clock-bound-shm package entry not found")
    deps = re.findall(r'"([^"]+)"', m.group(1))
    ver = None
    for dep in deps:
        parts = dep.split()
        if parts[0] == "nix":
            if len(parts) > 1:
                ver = parts[1]
            else:
                mv = re.findall(r'name = "nix"\nversion = "([^"]*)"', lock)
                ver = mv[0] if len(mv) == 1 else None
    if not ver:
        raise ex.ExtractError("Cargo.lock: nix version of clock-bound-shm not determined")
    home = os.environ.get("CARGO_HOME", os.path.expanduser("~/.cargo"))
    import glob
    cands = glob.glob(os.path.join(home, "registry", "src", "*", f"nix-{ver}", "src", "sys", "time.rs"))
    if len(cands) < 1:
        raise ex.ExtractError(f"nix-{ver} source not found in the cargo registry")
    log.append({"item": "nix source", "rewrite": f"read {cands[0]} (version {ver} from /repo/Cargo.lock)", "count": 1, "why": "dependency under contract"})
    return cands[0]


def _named(sig, log, what, name="r"):
    m = re.search(r"->\s*(.+?)\s*$", sig, re.S)
    if not m:
        raise ex.ExtractError(f"{what}: no return type in signature")
    log.append({"item": what, "rewrite": f"return type named: -> ({name}: T)", "count": 1,
                "why": "Verus needs a name for the result in `ensures`"})
    return sig[:m.start()] + f"-> ({name}: " + m.group(1) + ")"


def extract_nix(log):
    """key -> text for every @@ITEM/SIG/BODY:nix.*@@ placeholder."""
    src = open(nix_source_path(log)).read()
    out = {}
    # constants (64-bit variant of TS_MAX_SECONDS is the first one in the file)
    for name, spec in (("NANOS_PER_SEC", "1_000_000_000"), ("TS_MAX_SECONDS", "9_223_372_035"),
                       ("TS_MIN_SECONDS", "-9_223_372_035")):
        ms = re.findall(r"^const %s: i64 = (.*);\s*$" % name, src, re.M)
        if not ms:
            raise ex.ExtractError(f"nix const {name} not found")
        init = ms[0]
        if name == "TS_MAX_SECONDS":
            i = src.index("const TS_MAX_SECONDS")
            pre = src[max(0, i - 120):i]
            if 'target_pointer_width = "64"' not in pre:
                raise ex.ExtractError("nix TS_MAX_SECONDS: 64-bit variant not first")
        out[f"ITEM:nix.{name}"] = f"    exec const {name}: i64 ensures {name} == {spec} {{ {init} }}"
        log.append({"item": f"nix const {name}", "rewrite": "`const X: i64 = init;` -> `exec const X: i64 ensures X == <value> { init }`",
                    "count": 1, "why": "initializer text unchanged: " + init})
    # inherent impl TimeSpec
    s, ob, e = ex.item(src, r"^impl TimeSpec\s*\{", "nix impl TimeSpec")
    for fn in ("new", "nanos_mod_sec", "tv_sec", "tv_nsec"):
        sig, body = ex.fn_parts(src, fn, what=f"nix TimeSpec::{fn}", within=(s, e))
        out[f"SIG:nix.{fn}"] = _named(sig, log, f"nix TimeSpec::{fn}")
        out[f"BODY:nix.{fn}"] = body
    # trait impl TimeValLike for TimeSpec
    s, ob, e = ex.item(src, r"^impl TimeValLike for TimeSpec\s*\{", "nix impl TimeValLike for TimeSpec")
    for fn in ("nanoseconds", "num_seconds", "num_nanoseconds"):
        sig, body = ex.fn_parts(src, fn, what=f"nix TimeValLike::{fn}", within=(s, e))
        ind = re.match(r"\s*", sig).group(0)
        out[f"SIG:nix.{fn}"] = _named(ind + "pub " + sig.strip(), log, f"nix TimeValLike::{fn}")
        out[f"BODY:nix.{fn}"] = body
    log.append({"item": "nix impl TimeValLike for TimeSpec", "rewrite": "methods nanoseconds/num_seconds/num_nanoseconds placed in an inherent impl block and marked pub (trait methods are public)",
                "count": 3, "why": "Verus does not allow `requires` on trait-impl methods; call syntax in compute_bound_at is unchanged"})
    # AsRef
    s, ob, e = ex.item(src, r"^impl AsRef<timespec> for TimeSpec\s*\{", "nix impl AsRef")
    sig, body = ex.fn_parts(src, "as_ref", what="nix AsRef::as_ref", within=(s, e))
    out["SIG:nix.as_ref"] = _named("        pub " + sig.strip(), log, "nix AsRef::as_ref")
    out["BODY:nix.as_ref"] = body
    log.append({"item": "nix impl AsRef<timespec> for TimeSpec", "rewrite": "method as_ref placed in the inherent impl block (made pub)", "count": 1,
                "why": "same reason as TimeValLike"})
    # free helper functions
    for fn in ("div_mod_floor_64", "div_floor_64", "mod_floor_64", "div_rem_64"):
        sig, body = ex.fn_parts(src, fn, what=f"nix {fn}")
        out[f"SIG:nix.{fn}"] = _named(sig, log, f"nix {fn}")
        out[f"BODY:nix.{fn}"] = body
    # whole trait impls, verbatim
    for key, hdr in (("impl_from", r"^impl From<timespec> for TimeSpec\s*\{"),
                     ("impl_add", r"^impl ops::Add for TimeSpec\s*\{"),
                     ("impl_sub", r"^impl ops::Sub for TimeSpec\s*\{"),
                     ("impl_ord", r"^impl Ord for TimeSpec\s*\{"),
                     ("impl_partial_ord", r"^impl PartialOrd for TimeSpec\s*\{")):
        s, ob, e = ex.item(src, hdr, "nix " + key)
        out[f"ITEM:nix.{key}"] = src[s:e]
    return out


def fill(tmpl, parts):
    def rep(m):
        k = m.group(1)
        if k not in parts:
            raise ex.ExtractError("template placeholder without extracted text: " + k)
        return parts[k]
    out = re.sub(r"@@((?:ITEM|SIG|BODY):[A-Za-z0-9_.]+)@@", rep, tmpl)
    return out


def gen_compute(out_path):
    """clock-bound-shm/src/lib.rs: compute_bound_at + the types it uses; nix TimeSpec functions."""
    log = []
    try:
        src = _read("clock-bound-shm/src/lib.rs")
        # constant
        m = re.search(r"^const CLOCKBOUND_RESTART_GRACE_PERIOD: TimeSpec = (.*);\s*$", src, re.M)
        if not m:
            raise ex.ExtractError("const CLOCKBOUND_RESTART_GRACE_PERIOD not found")
        init = m.group(1)
        const_txt = (
            "//@ FN\n//@ BODY C06.const.grace_period_is_5s\n"
            "exec const CLOCKBOUND_RESTART_GRACE_PERIOD: TimeSpec\n"
            "    ensures ns(CLOCKBOUND_RESTART_GRACE_PERIOD.0) == grace_ns(), nn_ok(CLOCKBOUND_RESTART_GRACE_PERIOD.0),\n"
            "{\n    " + init + "\n}\n//@ ENDBODY\n//@ ENDFN")
        log.append({"item": "const CLOCKBOUND_RESTART_GRACE_PERIOD", "rewrite": "`const X: T = init;` -> `exec const X: T ensures .. { init }`",
                    "count": 1, "why": "Verus form of a constant with a contract; initializer text unchanged: " + init})
        # types
        parts = {}
        for key, hdr, derive in (
                ("ENUM_SHMERROR", r"^pub enum ShmError\s*\{", ""),
                ("ENUM_CLOCKSTATUS", r"^pub enum ClockStatus\s*\{", "#[derive(Clone, Copy)]\n"),
                ("STRUCT_CEB", r"^pub struct ClockErrorBound\s*\{", "#[derive(Clone, Copy)]\n")):
            s, ob, e = ex.item(src, hdr, key)
            txt = ex.strip_attrs_and_docs(src[s:e])
            txt = re.sub(r"\n\s*\n", "\n", txt)
            log.append({"item": key, "rewrite": "attribute and doc-comment lines dropped; derive reduced to " + (derive.strip() or "none"),
                        "count": 1, "why": "derive(Debug, PartialEq, ..) expansions are outside Verus's subset and irrelevant to the contract"})
            parts[key] = derive + _rewrite(txt, [LIBC], log, key)
        # the function
        s, ob, e = ex.item(src, r"^impl ClockErrorBound\s*\{", "impl ClockErrorBound")
        sig, body = ex.fn_parts(src, "compute_bound_at", within=(s, e))
        sig = _rewrite(sig, [LIBC], log, "fn compute_bound_at (signature)")
        sig = _named(sig, log, "fn compute_bound_at (signature)", name="res")
        body = _rewrite(body, [LIBC], log, "fn compute_bound_at (body)")
        nix = extract_nix(log)
        const_txt += "\n" + module_consts(src, log, skip=("CLOCKBOUND_RESTART_GRACE_PERIOD",))
    except ex.ExtractError as err:
        raise Undecided("extract", "extraction anchor lost: " + str(err))
    tmpl = open(os.path.join(VERIF, "verus", "compute.rs.tmpl")).read()
    shm = parts["ENUM_SHMERROR"]
    out = (tmpl.replace("@@CONST_GRACE@@", const_txt)
           .replace("@@ENUM_SHMERROR@@", "pub struct Errno(pub i32);\npub struct CStr { _opaque: u8 }\n" + shm)
           .replace("@@ENUM_CLOCKSTATUS@@", parts["ENUM_CLOCKSTATUS"])
           .replace("@@STRUCT_CEB@@", parts["STRUCT_CEB"])
           .replace("@@FN_COMPUTE_SIG@@", sig)
           .replace("@@FN_COMPUTE_BODY@@", body))
    try:
        out = fill(out, nix)
    except ex.ExtractError as err:
        raise Undecided("extract", str(err))
    log.append({"item": "ShmError payload types", "rewrite": "opaque stand-ins `Errno(i32)` and `CStr` declared",
                "count": 1, "why": "errno::Errno and std::ffi::CStr are not needed by the contract"})
    with open(out_path, "w") as f:
        f.write(out)
    return log


def gen_extract(out_path):
    """clock-bound-d: extract_bound_from_tracking (shm_writer.rs), ChronyClockStatus + From<u16> (lib.rs)."""
    log = []
    parts = {}
    try:
        lib = _read("clock-bound-d/src/lib.rs")
        s, ob, e = ex.item(lib, r"^pub enum ChronyClockStatus\s*\{", "enum ChronyClockStatus")
        txt = ex.strip_attrs_and_docs(lib[s:e])
        parts["ITEM:d.enum_status"] = "#[derive(Clone, Copy)]\n" + re.sub(r"\n\s*\n", "\n", txt)
        log.append({"item": "enum ChronyClockStatus", "rewrite": "attribute/doc lines dropped; derive reduced to Clone, Copy", "count": 1,
                    "why": "derive(Debug, PartialEq) expansions are outside Verus's subset"})
        s, ob, e = ex.item(lib, r"^impl From<u16> for ChronyClockStatus\s*\{", "impl From<u16> for ChronyClockStatus")
        parts["ITEM:d.impl_from_u16"] = lib[s:e]
        sw = _read("clock-bound-d/src/shm_writer.rs")
        sig, body = ex.fn_parts(sw, "extract_bound_from_tracking")
        parts["SIG:d.extract"] = _named(sig, log, "fn extract_bound_from_tracking (signature)", name="res")
        parts["BODY:d.extract"] = body
        parts["ITEM:d.consts"] = module_consts(sw, log, skip=("CLOCKBOUND_SHM_DEFAULT_PATH",)) + "\n" + module_consts(lib, log)
    except ex.ExtractError as err:
        raise Undecided("extract", "extraction anchor lost: " + str(err))
    log.append({"item": "chrony_candm::reply::Tracking / ChronyFloat, std::time", "rewrite": "hand-declared stand-ins (fields read by the function; opaque SystemTime/Duration specs)",
                "count": 1, "why": "dependency types; the status part of the function is decided by Kani on the real types (C10)"})
    tmpl = open(os.path.join(VERIF, "verus", "extract.rs.tmpl")).read()
    try:
        out = fill(tmpl, parts)
    except ex.ExtractError as err:
        raise Undecided("extract", str(err))
    with open(out_path, "w") as f:
        f.write(out)
    return log


def gen_lemmas(out_path):
    """History / composition lemmas; the only extracted text is the Kani oracle `next_gen`."""
    log = []
    try:
        h = open(os.path.join(VERIF, "harness/clock-bound-shm/verif_write.rs")).read()
        sig, body = ex.fn_parts(h, "next_gen", what="harness oracle next_gen")
        sig = sig.replace("pub(crate) ", "")
        parts = {"SIG:harness.next_gen": _named(sig, log, "harness oracle next_gen"), "BODY:harness.next_gen": body}
        out = fill(open(os.path.join(VERIF, "verus", "lemmas.rs.tmpl")).read(), parts)
    except ex.ExtractError as err:
        raise Undecided("extract", str(err))
    log.append({"item": "harness/clock-bound-shm/verif_write.rs fn next_gen", "rewrite": "pasted verbatim as an exec fn with `ensures r == next_gen(g)`",
                "count": 1, "why": "ties the Kani obligation C11.write.final_value to the spec function used in the induction"})
    with open(out_path, "w") as f:
        f.write(out)
    return log


def gen_snapshot(out_path):
    """clock-bound-shm/src/reader.rs: ShmReader::snapshot against an adversarial segment (termination)."""
    log = []
    try:
        src = _read("clock-bound-shm/src/reader.rs")
        s0, ob, e0 = ex.item(src, r"^impl ShmReader\s*\{", "impl ShmReader")
        sig, body = ex.fn_parts(src, "snapshot", within=(s0, e0))
        sig = _named(sig, log, "fn snapshot (signature)", name="res")
        body, n1 = re.subn(r"unsafe\s*\{\s*&\*self\.(version|generation)\s*\}", r"self.\1.deref_shared()", body)
        body, n2 = re.subn(r"unsafe\s*\{\s*(self\.ceb_shm\.read_volatile\(\))\s*\}", r"\1", body)
        if n1 != 2 or n2 != 1:
            raise ex.ExtractError(f"snapshot: expected 2 atomic dereferences and 1 volatile read, found {n1} and {n2}")
        log.append({"item": "fn snapshot (body)", "rewrite": "`unsafe { &*self.version }` / `unsafe { &*self.generation }` -> `self.<field>.deref_shared()`",
                    "count": n1, "why": "Verus has no raw-pointer dereference; the stand-in returns a reference to an atomic whose loads are unconstrained"})
        log.append({"item": "fn snapshot (body)", "rewrite": "`unsafe { self.ceb_shm.read_volatile() }` -> `self.ceb_shm.read_volatile()`",
                    "count": n2, "why": "the stand-in's read_volatile is an external function without postcondition (arbitrary record)"})
        # the local that holds the generation the call is about to accept: `let mut <x> = <atomic>.load(..)`
        tracked = re.findall(r"let mut ([a-z_][a-z0-9_]*) = [a-z_][a-z0-9_]*\.load\(", body)
        calls_helper = any(len(re.findall(r"^(?:pub(?:\([a-z]+\))? )?(?:const )?fn %s\s*[(<]" % re.escape(nm), src, re.M)) == 1
                           for nm in set(re.findall(r"(?<![.\w:])([a-z_][a-z0-9_]*)\(", body)))
        # the parity clause is generated only when the parity tests are inline (a helper without contract
        # would make the clause unprovable for a reason that has nothing to do with the property)
        parity_var = tracked[0] if len(tracked) == 1 and not calls_helper else None
        def parity_inv(ind):
            return (f"{ind}        {parity_var} % 2 == 0, //@ C18.verus.a_newly_cached_generation_is_even\n") if parity_var else ""
        # loop contract spliced between the loop header and its body
        m = list(re.finditer(r"^([ \t]*)while ([a-z_][a-z0-9_]*) > 0 \{[ \t]*$", body, re.M))
        mf = list(re.finditer(r"^([ \t]*)for ([a-z_][a-z0-9_]*) in 0\.\.([A-Za-z0-9_]+) \{[ \t]*$", body, re.M))
        if len(m) == 1 and not mf:
            ind, var = m[0].group(1), m[0].group(2)
            body = body[:m[0].start()] + f"{ind}while {var} > 0\n{ind}    invariant {var} <= 1_000_000, self.snapshot_ceb == old(self).snapshot_ceb, self.snapshot_gen == old(self).snapshot_gen,\n" + parity_inv(ind) + f"{ind}    decreases {var},\n{ind}{{" + body[m[0].end():]
            log.append({"item": "fn snapshot (body)", "rewrite": f"loop contract `invariant {var} <= 1_000_000, cache unchanged so far; decreases {var}` spliced after the header of `while {var} > 0`",
                        "count": 1, "why": "inductive invariant / termination measure of the retry loop (the only annotation inside the body)"})
        elif len(mf) == 1 and not m:
            # the same loop written as a bounded `for`: it terminates by construction (finite range); only
            # the cache invariant is needed
            ind, var, hi = mf[0].group(1), mf[0].group(2), mf[0].group(3)
            var2 = var if var != "_" else "_verif_i"
            body = body[:mf[0].start()] + f"{ind}for {var2} in 0..{hi}\n{ind}    invariant self.snapshot_ceb == old(self).snapshot_ceb, self.snapshot_gen == old(self).snapshot_gen,\n" + parity_inv(ind) + f"{ind}{{" + body[mf[0].end():]
            log.append({"item": "fn snapshot (body)", "rewrite": f"loop contract `invariant cache unchanged so far` spliced after the header of `for {var} in 0..{hi}` (a loop over a finite range needs no termination measure)",
                        "count": 1, "why": "inductive invariant of the retry loop (the only annotation inside the body)"})
        else:
            raise ex.ExtractError(f"snapshot: expected exactly one `while <counter> > 0 {{` or `for <i> in 0..<N> {{` loop, found {len(m)} + {len(mf)}")
        # private free functions of reader.rs that the body calls (a refactoring may name a sub-expression):
        # verbatim, without contract - the proof is about control flow and termination, so their results
        # may stay unknown, but their own bodies must verify (no overflow, no panic)
        helpers = []
        for name in sorted(set(re.findall(r"(?<![.\w:])([a-z_][a-z0-9_]*)\(", body))):
            hm = [x for x in re.finditer(r"^(?:pub(?:\([a-z]+\))? )?(?:const )?fn %s\s*[(<]" % re.escape(name), src, re.M)]
            if len(hm) != 1:
                continue
            try:
                st, _ob, en = ex.item(src, r"^(?:pub(?:\([a-z]+\))? )?(?:const )?fn %s\s*[(<]" % re.escape(name), "fn " + name)
            except ex.ExtractError:
                continue
            helpers.append(src[st:en])
            log.append({"item": f"fn {name}", "rewrite": "free helper function called by snapshot, copied verbatim (no contract)", "count": 1,
                        "why": "so that a sub-expression moved into a helper keeps verifying"})
        even_clause = ""
        if parity_var:
            even_clause = ("        res is Ok ==> ((final(self).snapshot_gen == old(self).snapshot_gen && final(self).snapshot_ceb == old(self).snapshot_ceb)"
                           " || final(self).snapshot_gen % 2 == 0), //@ C18.verus.a_newly_cached_generation_is_even")
            log.append({"item": "fn snapshot (body)", "rewrite": f"loop invariant `{parity_var} % 2 == 0` spliced into the loop contract", "count": 1,
                        "why": "inductive invariant for the clause 'a newly cached generation is even' (unbounded, adversarial segment)"})
        else:
            log.append({"item": "fn snapshot (body)", "rewrite": "clause C18.verus.a_newly_cached_generation_is_even NOT generated", "count": 0,
                        "why": "the local holding the candidate generation could not be identified, or the parity test sits in a helper without contract; "
                               "the bounded Kani obligation C18.snapshot.accepts_only_even_generation still covers it"})
        parts = {"SIG:shm.snapshot": sig, "BODY:shm.snapshot": body, "ITEM:shm.even_clause": even_clause,
                 "ITEM:shm.consts": "\n".join(x for x in [module_consts(src, log)] + helpers if x)}
        out = fill(open(os.path.join(VERIF, "verus", "snapshot.rs.tmpl")).read(), parts)
    except ex.ExtractError as err:
        raise Undecided("extract", "extraction anchor lost: " + str(err))
    log.append({"item": "ShmReader / ClockErrorBound / ShmError / atomic::Ordering", "rewrite": "hand-declared stand-ins (only the fields snapshot touches; opaque record)",
                "count": 1, "why": "the proof is about control flow and termination, not about the record's content"})
    with open(out_path, "w") as f:
        f.write(out)
    return log


GENERATORS = {"compute": gen_compute, "extract": gen_extract, "lemmas": gen_lemmas, "snapshot": gen_snapshot}


def obligation_map(path):
    """Map line numbers of the generated file to obligation names.

    `//@ NAME` at the end of a line names the clause / item on that line;
    `//@ BODY NAME` ... `//@ ENDBODY` names every line in between (body-internal obligations:
    callee preconditions, arithmetic overflow)."""
    by_line, names, body_ranges = {}, [], []
    cur = None
    for i, line in enumerate(open(path), 1):
        m = re.search(r"//@ BODY (\S+)", line)
        if m:
            cur = (m.group(1), i)
            if m.group(1) not in names:
                names.append(m.group(1))
            continue
        if "//@ ENDBODY" in line:
            body_ranges.append((cur[1], i, cur[0]))
            cur = None
            continue
        m = re.search(r"//@ (C\d\d\.[A-Za-z0-9_.]+|NIX\.[A-Za-z0-9_.]+|CANARY\.[A-Za-z0-9_.]+)", line)
        if m:
            by_line[i] = m.group(1)
            if m.group(1) not in names:
                names.append(m.group(1))
    return by_line, body_ranges, names


def fn_ranges(path):
    """[(first_line, last_line, [obligation names inside])] for every `//@ FN` .. `//@ ENDFN` region."""
    by_line, body_ranges, _ = obligation_map(path)
    out, start = [], None
    for i, line in enumerate(open(path), 1):
        if line.strip() == "//@ FN":
            start = i
        elif line.strip() == "//@ ENDFN" and start is not None:
            names = [n for l, n in sorted(by_line.items()) if start <= l <= i]
            names += [n for (a, b, n) in body_ranges if start <= a <= i and n not in names]
            out.append((start, i, names))
            start = None
    return out
