#!/usr/bin/env python3
"""Mutation campaign (development aid, not a registered check).
Stage 1 (parallel): each mutant is applied in a worker worktree; kept if the workspace compiles and the
existing tests pass.  Stage 2: the checks of the affected properties are run against the mutated
worktree (VERIF_REPO); a mutant that every check answers with exit 0 is a SURVIVOR to be triaged
(equivalent mutant, or a weak contract)."""
import json, os, subprocess, sys, threading, queue, time
sys.path.insert(0, os.path.dirname(os.path.abspath(__file__)))
import mutate

OUT = "/tmp/mutants"
ms = json.load(open(f"{OUT}/mutants.json"))
only = set(int(x) for x in sys.argv[2:]) if len(sys.argv) > 2 else None
stage = sys.argv[1]
lock = threading.Lock()


def sh(cmd, cwd=None, env=None, timeout=None):
    e = dict(os.environ); e.update(env or {})
    p = subprocess.run(cmd, cwd=cwd, env=e, stdout=subprocess.PIPE, stderr=subprocess.STDOUT, text=True, timeout=timeout)
    return p.returncode, p.stdout


def worktree(i):
    wt = f"/tmp/mut-w{i}"
    if not os.path.exists(wt):
        sh(["git", "-C", "/repo", "worktree", "add", "-q", "--detach", wt, "HEAD"])
    return wt


def stage1_worker(i, q, res):
    wt = worktree(i)
    while True:
        try:
            m = q.get_nowait()
        except queue.Empty:
            return
        sh(["git", "checkout", "-q", "--", "."], cwd=wt)
        mutate.apply(m, wt)
        t0 = time.time()
        try:
            rc, out = sh(["cargo", "test", "--workspace", "--offline"], cwd=wt, timeout=900)
        except subprocess.TimeoutExpired:
            rc, out = 124, "timeout"
        passed = rc == 0
        with lock:
            res[m["id"]] = {"id": m["id"], "tests_pass": passed, "secs": round(time.time() - t0)}
            json.dump(res, open(f"{OUT}/stage1.json", "w"))
            print(f"[s1] {m['id']:3d} {m['file'].split('/')[-1]:18s} {m['kind']:6s} {'SURVIVES-TESTS' if passed else 'killed-by-tests'} {m['text'][:70]}", flush=True)
        sh(["git", "checkout", "-q", "--", "."], cwd=wt)


def stage2_worker(i, q, res):
    wt = worktree(10 + i)
    while True:
        try:
            m = q.get_nowait()
        except queue.Empty:
            return
        sh(["git", "checkout", "-q", "--", "."], cwd=wt)
        mutate.apply(m, wt)
        verdicts = {}
        for p in m["props"]:
            env = {"VERIF_REPO": wt, "VERIF_EVIDENCE_DIR": f"{OUT}/evidence-{i}", "VERIF_REPLAY_DIR": f"{OUT}/replays-{i}"}
            try:
                rc, out = sh(["/verif/check", p], env=env, timeout=3600)
            except subprocess.TimeoutExpired:
                rc, out = 124, ""
            verdicts[p] = rc
            if rc == 1:
                break   # detected
        detected = any(v == 1 for v in verdicts.values())
        with lock:
            res[m["id"]] = {"id": m["id"], "verdicts": verdicts, "detected": detected}
            json.dump(res, open(f"{OUT}/stage2.json", "w"))
            print(f"[s2] {m['id']:3d} {m['file'].split('/')[-1]:18s} {m['kind']:6s} {'detected' if detected else 'SURVIVOR ' + str(verdicts)} | {m['text'][:70]}", flush=True)
        sh(["git", "checkout", "-q", "--", "."], cwd=wt)


if stage == "1":
    res = json.load(open(f"{OUT}/stage1.json")) if os.path.exists(f"{OUT}/stage1.json") else {}
    res = {int(k): v for k, v in res.items()}
    q = queue.Queue()
    for m in ms:
        if m["id"] not in res and (only is None or m["id"] in only):
            q.put(m)
    ts = [threading.Thread(target=stage1_worker, args=(i, q, res)) for i in range(6)]
    [t.start() for t in ts]; [t.join() for t in ts]
elif stage == "2":
    s1 = {int(k): v for k, v in json.load(open(f"{OUT}/stage1.json")).items()}
    res = json.load(open(f"{OUT}/stage2.json")) if os.path.exists(f"{OUT}/stage2.json") else {}
    res = {int(k): v for k, v in res.items()}
    q = queue.Queue()
    for m in ms:
        if s1.get(m["id"], {}).get("tests_pass") and m["id"] not in res and (only is None or m["id"] in only):
            q.put(m)
    ts = [threading.Thread(target=stage2_worker, args=(i, q, res)) for i in range(3)]
    [t.start() for t in ts]; [t.join() for t in ts]
