#!/bin/bash
# run every claimed check (quick tier by default) and print a summary
cd "$(dirname "$0")/.." || exit 2
tier="${1:-quick}"
for p in $(python3 -c "import json;print(' '.join(c['property_id'] for c in json.load(open('MANIFEST.json'))['checks']))"); do
  s=$(date +%s); out=$(./check "$p" --tier "$tier" 2>&1); rc=$?; e=$(date +%s)
  echo "$p rc=$rc $((e-s))s $(echo "$out" | grep -E '^\[' | tail -1)"
  echo "$out" | grep -E "^(VIOLATION|UNDECIDED|KNOWN-FINDING)" | sed 's/^/    /'
done
