"""Data for MANIFEST.json."""
BASELINE = ("cd /repo && cargo nextest run --workspace --no-fail-fast --tool-config-file pb:/w/lib/nextest.toml "
            "--profile pb --test-threads 8 --offline || cargo test --workspace --no-fail-fast --offline")

CHECKS = {
    "C11": dict(
        category="proof",
        text="ShmWrite::write is proved against its contract for all 65 536 start generations (odd ones left by a "
             "crashed writer included), symbolic old and new records: final generation even, non-zero, different, "
             "equal to the documented successor; the stored generation is odd immediately before and after the record "
             "copy (woven ghost probes); frame (magic, size, version untouched). Loop-free harness over the full domain = "
             "complete proof for one call; histories follow by the Verus induction lemma over the same successor function.",
        note="Kani/CBMC soundness; atomics sequential (single writer program order); weaver inserts only cfg(kani) probes.",
        technique="Kani harness-form function contract on the real write() (bit-precise, full domain) + Verus induction lemma",
        design_ref="DESIGN.md section 4, C11",
    ),
}

NOT_APPLICABLE = {
    "C02": "quantifies over interleavings of individual memory accesses and C11/ARM reorderings; no contract within reach of Kani (no threads, sequential atomics) or Verus (would need a rewrite onto its permission types = a model) expresses it",
    "C15": "liveness of three OS threads and mpsc channels under every failure point and interleaving; neither tool has threads or liveness; the contract-sized fragments do not imply the property",
}
PENDING = "check not built yet in this revision of /verif (planned in DESIGN.md section 4); not claimed until its obligations are discharged"


def manifest():
    import json, os
    V = os.path.dirname(os.path.dirname(os.path.abspath(__file__)))
    props = [json.loads(l)["id"] for l in open(os.path.join(V, "properties.jsonl"))]
    checks = []
    for pid in props:
        if pid in CHECKS:
            c = CHECKS[pid]
            checks.append({
                "property_id": pid,
                "quick_cmd": f"./check {pid} --tier quick",
                "thorough_cmd": f"./check {pid} --tier thorough",
                "evidence_file": f"/verif/evidence/{pid}.json",
                "replay_cmd_template": "./check replay {path}",
                "engine": c.get("engine", "kani-woven"),
                "level_claimed": {"category": c["category"], "text": c["text"], "design_ref": c["design_ref"]},
                "level_note": c["note"],
                "technique": c["technique"],
            })
    na = []
    for pid in props:
        if pid not in CHECKS:
            na.append({"property_id": pid, "reason": NOT_APPLICABLE.get(pid, PENDING)})
    return {
        "version": 1,
        "setup_cmd": "./check warm",
        "hooks": {
            "guard": "kani",
            "enable": "no source hooks live in /repo: every check copies /repo's working tree to a scratch directory and weaves "
                      "cfg(kani)-guarded contracts/harness modules into the copy (tools/registry.py UNITS); Verus obligations run on "
                      "function text extracted verbatim from the working tree",
            "baseline_off_cmd": BASELINE,
            "source_commits": [],
            "add_only": True,
        },
        "engines": [
            {"name": "kani-woven", "path": "tools/check.py", "serves_properties": sorted(CHECKS), "kind_free_text": "Kani 0.68 function-contract / full-domain harness proofs on the real crates, woven in a scratch copy"},
            {"name": "verus-extracted", "path": "tools/verus_group.py", "serves_properties": [], "kind_free_text": "Verus on function bodies extracted verbatim from /repo each run"},
        ],
        "checks": checks,
        "not_applicable": na,
        "notes": "exit 0 = all obligations discharged; exit 1 + VIOLATION line = a named obligation failed; exit 2 = undecided (lost anchor, timeout, tool limit) - never reported as a violation.",
    }
