"""Data for MANIFEST.json."""
BASELINE = ("cd /repo && cargo nextest run --workspace --no-fail-fast --tool-config-file pb:/w/lib/nextest.toml "
            "--profile pb --test-threads 8 --offline || cargo test --workspace --no-fail-fast --offline")

# fix: commits in /repo (no hook commits: nothing verification-specific lives in /repo)
SOURCE_COMMITS = ["acf241c", "f232737", "ddb5f3b"]

CHECKS = {
    "C11": dict(
        category="proof",
        text="ShmWrite::write is proved against its contract for all 65 536 start generations (odd ones left by a "
             "crashed writer included), symbolic old and new records: final generation even, non-zero, different, "
             "equal to the documented successor; the stored generation is odd immediately before and after the record "
             "copy (woven ghost probes); frame (magic, size, version untouched). Loop-free harness over the full domain = "
             "complete proof for one call; histories follow by the Verus induction lemma over the same successor function.",
        note="Kani/CBMC soundness; atomics sequential (single writer program order); weaver inserts only cfg(kani) probes.",
        technique="Kani harness-form function contract on the real write() (bit-precise, full domain) + Verus induction lemma",
        design_ref="DESIGN.md section 4, C11",
    ),
}

COMPUTE_NOTE = ("Assumed: Verus/Z3 sound; float axioms A1/A2 on the one f64 expression (shape-keyed; a Verus failure of a float-dependent clause is a "
                "violation only with a failing input found on the real function, else exit 2); hand-declared timespec/TimeSpec structs, libc aliases as i64, "
                "zero_init_timespec and derived PartialEq stand-ins; extraction rewrites listed in the evidence. nix TimeSpec functions are NOT assumed: their "
                "verbatim bodies are verified in the same file.")
CHECKS.update({
    "C05": dict(
        category="proof", engine="verus-extracted",
        text="compute_bound_at (verbatim body) is verified by Verus against: symmetric, normalised, ordered, half-width == bound + fterm(elapsed, drift) "
             "(exact), within 1 + ef/2^50 ns of bound + floor(drift*elapsed/10^9) on both sides, zero-age exact, never below the stored bound, and a lemma that "
             "the half-width is monotone in the monotonic reading; for all records/readings within +/-68 y, |bound| < 2^60, every drift < 10^9. The nix TimeSpec "
             "operations it calls are verified from their verbatim source in the same file. The f64 drift term enters through assumed axioms (proof modulo A1/A2).",
        note=COMPUTE_NOTE,
        technique="Verus (Z3) deductive verification of the verbatim function body + callee bodies; assumed IEEE axioms for one expression; native search only to produce replay inputs",
        design_ref="DESIGN.md section 4, C05"),
    "C06": dict(
        category="proof", engine="verus-extracted",
        text="Status decay of compute_bound_at proved for all three stored statuses and all orderings of mono vs as_of, as_of+5 s, void_after (symbolic thresholds, so the "
             "+/-1 ns neighbours are covered): result equals the documented status_law function, plus each clause of the property statement as its own postcondition; "
             "the grace constant is proved to be 5 s. Pure integer/enum reasoning, no float axiom involved.",
        note=COMPUTE_NOTE,
        technique="Verus (Z3) postconditions on the verbatim body of compute_bound_at and of the nix comparison/addition it uses",
        design_ref="DESIGN.md section 4, C06"),
    "C14": dict(
        category="proof", engine="verus-extracted",
        text="compute_bound_at proved to return SegmentMalformed for drift >= 10^9, CausalityBreach iff mono <= as_of - 1000 ns, Ok otherwise, zero age inside the blur, and to "
             "satisfy every callee precondition (nix range asserts, i64 overflow) and Verus's own overflow checks in the +/-68 y / 2^60 range = no panic/abort/overflow. "
             "Error propagation to the Rust and C error types is proved by Kani (see C17 for the FFI types).",
        note=COMPUTE_NOTE,
        technique="Verus (Z3) on the verbatim body: error postconditions + panic/overflow freedom of the body and of the nix callees",
        design_ref="DESIGN.md section 4, C14"),
    "C01": dict(
        category="proof", engine="verus-extracted",
        text="Conditional composition proof. A Verus lemma shows: if chrony's report was valid, the oscillator obeyed the configured rate, the published bound covers |offset|+dispersion+delay/2 "
             "(C07), the record carries that bound with the as-of reading taken before the query and is frozen across non-synchronised outcomes (C08/C12), no status other than Unknown is published "
             "before a measurement exists (C09), the drift rate is published exactly (C19), and the client's interval is symmetric with half-width >= bound + floor(rho*elapsed/10^9) - 1 (C05) with the "
             "realtime clock read before the monotonic one (C12), then true time at the instant the system clock was read lies within [earliest - 3 ns, latest + 3 ns]. The check discharges that lemma "
             "AND re-runs the component obligations on the real code, reporting the first failing component obligation as the C01 violation with its replay. The property holds for the real code exactly as "
             "far as those component contracts are discharged; snapshot atomicity under concurrent update (C02) is ASSUMED, not shown. Found and fixed: F-C07, F-C09, F-C19 each broke containment.",
        note="Assumed: C02; validity of chrony's report; configured drift rate; second-order clock-rate term; integer-nanosecond modelling (3 ns margin); float axioms A1/A2 and rounding model A3/A4; "
             "hand restatement of component postconditions as lemma hypotheses.",
        technique="Verus composition lemma over the component contracts + the component Verus/Kani obligations on the real code",
        design_ref="DESIGN.md section 4, C01"),
    "C03": dict(
        category="proof", engine="kani-woven",
        text="At call granularity: ShmReader::snapshot is proved (Kani, real code, all versions/generations/cached generations/records/caches) to return the segment's record and cache its "
             "generation exactly when the generation is even, non-zero and differs from the cached one, and otherwise to return the untouched cache, never an error, never writing to the segment; "
             "together with the write contract (C11: generation strictly advances to the documented successor, record == published) and the write->fresh-snapshot round trip this gives: a later whole "
             "call never returns an older publication, and with no update in flight it returns the latest one unless the cached generation coincides (the documented 32767 exception, visible as the "
             "gen == cached case). Calls overlapping an update are NOT covered.",
        note="Kani/CBMC sound; sequential atomics; quiescent-segment assumption is the property's own 'no update in flight'; interleavings are C02 (not applicable).",
        technique="Kani full-domain contract harness on the real snapshot() (quiescent segment) + write contract + round-trip harness",
        design_ref="DESIGN.md section 4, C03"),
    "C04": dict(
        category="proof", engine="kani-woven",
        text="Crash states at call granularity: (i) snapshot on ANY segment state (any version/generation/record a dead writer can leave) serves the cache unless the generation is even, non-zero and new - "
             "never a record under an odd/zero generation or version 0, never an error; (ii) write from ANY start generation (odd included) ends even/non-zero with the record complete (C11); (iii) "
             "ShmWriter::new wipes iff the usability probe failed, otherwise takes the segment over in place (generation, record, magic, size untouched, version 1, pointers at 12/14/16); (iv) ShmReader::new "
             "rejects files with version 0 / generation 0 / short header (new clients attach only after the first publication) - on a POSIX model linked into the run.",
        note="States, not schedules (interleavings are C02). POSIX model and the three file-system stubs of ShmWriter::new are assumed contracts; wipe's bytes and whole crash/restart histories with an attached client are covered only by the bounded native stand-in (real code on the real file system, not counted as proved).",
        technique="Kani full-domain harnesses on the real reader/writer code; C POSIX model linked via c-ffi; contract stubs for file-system functions",
        design_ref="DESIGN.md section 4, C04"),

    "C07": dict(
        category="proof", engine="verus-extracted",
        text="extract_bound_from_tracking (verbatim body) is verified by Verus to return, on every path, the value of the documented expression ceil((delay/2 + dispersion + |offset|)*10^9) "
             "applied to the right three fields of the report (dataflow/shape proof over vstd's uninterpreted f64 operators); the numeric clauses (never negative, never smaller than the exact "
             "sum, rounded up by less than 1 ns) then follow from an ASSUMED rounding model of that expression (A3/A4), so this is a proof modulo that model, not of IEEE arithmetic. Kani proves "
             "on the real function and the real chrony_candm decoder that the bound is never negative for either sign of the offset (wire exponents [-35,13]) and that process_clock_update adds "
             "the PHC error bound exactly. Found and fixed F-C07 (signed offset).",
        note="Assumed: A3 shape axiom, A4 rounding model, cf_val stand-in for the wire-float decoder, powi exact, SystemTime::elapsed contract. A Verus failure of these float-dependent clauses is "
             "reported as a violation only with a failing input found on the real function (native search), otherwise exit 2.",
        technique="Verus shape/dataflow proof of the verbatim body under an assumed IEEE rounding model + Kani sign/no-negative proof on the real function + native search for replay inputs",
        design_ref="DESIGN.md section 4, C07"),
    "C08": dict(
        category="proof", engine="kani-woven",
        text="Step contracts of ShmUpdater::process_clock_update / process_missing_clock_update / write_clock_error_bound / new and the 3x3 FSM table, proved by Kani on the real code "
             "(real Box<dyn FSMState>) from a symbolic pre-state reachable after a first synchronised report: exactly one publication per outcome; bound/as-of advance only on a synchronised "
             "report and are frozen otherwise; void_after = as_of.tv_sec + 1000, 0 ns; drift and reserved copied; status = class of the latest outcome. A symbolic pre-state makes the step "
             "contract an induction step, so every finite history is covered.",
        note="Kani/CBMC sound; extract_bound_from_tracking replaced by 'returns any (bound,status)'; harness sink instead of the mmap writer; process_messages' 8-arm dispatch is covered separately (C08 dispatch obligations) or listed as unverified glue in the evidence.",
        technique="Kani full-domain step-contract harnesses on the real updater and FSM (induction step over a symbolic pre-state)",
        design_ref="DESIGN.md section 4, C08"),
    "C09": dict(
        category="proof", engine="kani-woven",
        text="From ShmUpdater::new, zero or one arbitrary non-synchronised outcome followed by another arbitrary non-synchronised outcome publishes exactly the Unknown record with the placeholder "
             "bound (base + step), and two consecutive non-synchronised outcomes are observably absorbed into the second (closure), so by induction no history of non-synchronised outcomes "
             "publishes a status other than Unknown before the first synchronised report. Found and fixed F-C09 (fix: commit in /repo).",
        note="Kani/CBMC sound; extract_bound_from_tracking replaced by its contract; observational equality in the absorption obligation covers the named fields, the FSM value, the published record and one further publication.",
        technique="Kani full-domain harnesses on the real updater: base/step + absorption obligations (inductive argument over histories)",
        design_ref="DESIGN.md section 4, C09"),
    "C10": dict(
        category="proof", engine="kani-woven",
        text="From<u16> for ChronyClockStatus proved for all 65 536 codes; the status result of extract_bound_from_tracking proved for all leap codes, every non-negative update interval with wire "
             "exponent in [-10,30] (one loop-free harness per exponent, 41 instances), every reference-time age below 2^40 s on both sides of 8 intervals (exact integer oracle), and a "
             "reference time in the future. A bounded native stand-in on the real SystemTime clock (not counted as proved) supplies the executable failing input when one of these harnesses fails.",
        note="Kani/CBMC sound; SystemTime::elapsed and f64::powi stubbed by their contracts (listed); interval window stated.",
        technique="Kani full-domain harnesses (per wire exponent) on the real function with an exact integer oracle",
        design_ref="DESIGN.md section 4, C10"),
    "C12": dict(
        category="proof", engine="kani-woven",
        text="ClockErrorBound::now is proved (Kani, ghost clock) to read CLOCK_REALTIME first and the monotonic clock second, exactly two reads, and to hand tick #1 as `real` and tick #2 as `mono` "
             "to compute_bound_at, whose result it passes through; a failing clock read is an error, not an interval. One iteration of the real run_clock_error_bound_poller is proved to take its "
             "as-of from a monotonic-clock reading of that iteration taken before the query whose reply the report forwards (every clock read and every query of the iteration is logged by the ghost "
             "environment; a retry inside an iteration is allowed as long as each forwarded reply is stamped with a reading older than its own request), and to send no report when the clock cannot be read. "
             "'Delay only enlarges' then follows from the Verus lemma that the half-width is monotone in the monotonic reading (C05.lemma.monotone). A bounded native stand-in (the real loop on the real "
             "clock against a scripted chronyd; not counted as proved) supplies the executable failing scenario.",
        note="Ghost clock instead of clock_gettime; mpsc/DispatchBox recorders (assumed delivery); one loop iteration; compute_bound_at recorded, not re-verified here.",
        technique="Kani harnesses with a ghost clock on the real now() and the real poller loop body + Verus monotonicity lemma",
        design_ref="DESIGN.md section 4, C12"),
    "C13": dict(
        category="proof", engine="kani-woven",
        text="Proved by Kani on the real poller code: is_within_grace_period() <=> last good answer younger than 5 s (ghost monotone clock, real Instant arithmetic); default() starts outside the grace "
             "period for any later delay; get_tracking stamps 'now' iff a Tracking reply arrives and leaves the stamp on silence or a wrong reply; one loop iteration selects exactly one message per poll: "
             "silence -> NotResponding(GracePeriod iff within); report with PHC configured and matching reference id -> PHC file read exactly once after the report, its value attached exactly, read "
             "failure -> PhcErrorBoundRetrievalFailed(GracePeriod iff within) and no data message; report otherwise -> data with PHC term 0, forwarded unchanged; the grace period is judged after the query / "
             "the PHC read returned; two consecutive iterations: the second poll's message depends on the second poll only. A bounded native stand-in (real loop, real clock, real channels, real PHC file, "
             "scripted chronyd; not counted as proved) supplies the executable failing scenario.",
        note="Instant manufactured from its linux representation (assumed valid); network/file I/O replaced by contracts; mpsc/DispatchBox recorders; one iteration (loop state = the poller's stamp only).",
        technique="Kani full-domain harnesses with ghost clock / I/O contract stubs on the real poller",
        design_ref="DESIGN.md section 4, C13"),
    "C16": dict(
        category="proof", engine="kani-woven",
        text="ShmHeader::is_valid proved over all 2^128 header contents (Ok iff magic, version != 0, generation != 0, size >= 16; documented error kind per clause). ShmReader::new - the real code "
             "including FdGuard/MmapGuard/ShmHeader::read and their libc FFI calls - proved against a C model of open/read/mmap/munmap/close/errno for every file length 0..96, symbolic header bytes, "
             "missing file, directory, mmap failure: Ok iff header valid and declared size >= 72; NotInitialized / Malformed / SyscallError(errno) exactly as documented; descriptor closed on every path, "
             "mapping released on every error path, pointers at offsets 12/14/16, no out-of-bounds access. segment_size() == 72; write then a fresh reader's snapshot reads back exactly the published "
             "record; ShmWriter::new re-creates an unusable file with size 72; the real usability probe agrees with what a client's open would do (C16.probe.*). BOUNDED (not counted as proved): the real wipe and the real "
             "new + write + fresh open + snapshot executed natively on the real file system for every pre-existing file length 0..=200 x 4 fill patterns and a missing file.",
        note="Assumed: the POSIX model; contract stubs for wipe/mmap_segment_at in the ShmWriter::new harness; wipe's bytes through std::fs + byteorder are covered only by the bounded native stand-in (a Kani proof on a full file model did not finish).",
        technique="Kani full-domain harnesses on the real open path with a C POSIX model linked via c-ffi",
        design_ref="DESIGN.md section 4, C16"),
    "C17": dict(
        category="proof", engine="kani-woven",
        text="One table (spec/layout.json, transcribed from docs/PROTOCOL.md and clockbound.h) is checked on both sides: Kani proves size/alignment/field offsets/widths of ShmHeader, ClockErrorBound "
             "(72 bytes total, status word 0/1/2 at offset 48, fields re-read from the stored bytes with native endianness), and of the FFI's repr(C) mirror types and enum discriminants; CBMC proves the "
             "same numbers for the real clockbound.h (sizeof/offsetof/enumerators, sys_errno is an int at 4). The conversion layers of both clients are proved total and kind/errno preserving "
             "(From<ClockStatus>, From<ShmError> for clockbound_err and for ClockBoundError). Both clients' open and now wrappers are proved to be thin layers over the same three callees: open opens once and reads "
             "nothing (empty cache), now takes exactly one snapshot and evaluates exactly it, interval/status/error kind/errno passed through unchanged; ClockErrorBound::new stores its arguments verbatim.",
        note="Target x86_64-unknown-linux-gnu; the table is transcribed by hand; 'same interval at the same moment' across two separate calls is not one contract - the wrappers' equivalence is what is proved (callees replaced by recorders).",
        technique="Kani layout/conversion obligations on the repr(C) types + CBMC on the real C header, both generated from one table",
        design_ref="DESIGN.md section 4, C17"),
    "C18": dict(
        category="proof", engine="verus-extracted",
        text="Unbounded (Verus): the verbatim body of ShmReader::snapshot is verified against an ADVERSARIAL segment - every atomic load and the volatile record copy are external functions without "
             "postcondition, so a dead, stalled or continuously updating writer is a special case - to terminate (strictly decreasing measure `retries` from the budget 1 000 000; each iteration is "
             "straight-line: one record copy, one load), never to panic or overflow, to fail only with SegmentNotInitialized leaving the cache untouched, and to store only an even generation whenever it "
             "replaces the cache. Complete (Kani, real woven code): with an odd generation, version 0, "
             "generation 0 or an unchanged generation the call returns its cache after two loads and zero record reads; with a quiescent fresh generation exactly one record read. Bounded (not counted): "
             "access counts <= 2+2N / N record reads with the retry budget overridden to N=3.",
        note="Verus/Z3 and Kani/CBMC sound; three logged rewrites of unsafe accesses + the spliced loop contract in the extracted body; stand-in types for the segment; Verus's termination check is for the "
             "extracted function (the callee stand-ins are assumed to return).",
        technique="Verus termination/decreases proof on the verbatim snapshot body with an adversarial memory model + Kani full-domain harness for the early returns",
        design_ref="DESIGN.md section 4, C18"),
    "C19": dict(
        category="proof", engine="kani-woven",
        text="The ppm->ppb statement of main(), cut verbatim from main.rs on every run and wrapped as a function, is proved for every Option<u32>: None -> 1000; Some(r) -> exactly 1000*r when "
             "representable, otherwise the statement leaves main with Err; no arithmetic overflow on any path. ShmUpdater::new/step contracts prove the value is copied verbatim into every record. "
             "Found and fixed F-C19 (u32 wrap in the release build).",
        note="Kani/CBMC sound; format! stubbed on the refusal path; shm_writer::run hands the rate to ShmUpdater::new unchanged (C19.run.*); the clap parser in the release profile is covered by a bounded native stand-in (not counted as proved).",
        technique="Kani full-domain harness on a mechanically extracted statement + updater step contracts",
        design_ref="DESIGN.md section 4, C19"),
})

NOT_APPLICABLE = {
    "C02": "quantifies over interleavings of individual memory accesses and C11/ARM reorderings; no contract within reach of Kani (no threads, sequential atomics) or Verus (would need a rewrite onto its permission types = a model) expresses it",
    "C15": "liveness of three OS threads and mpsc channels under every failure point and interleaving; neither tool has threads or liveness; the contract-sized fragments do not imply the property",
}
PENDING = "check not built yet in this revision of /verif (planned in DESIGN.md section 4); not claimed until its obligations are discharged"


def manifest():
    import json, os
    V = os.path.dirname(os.path.dirname(os.path.abspath(__file__)))
    props = [json.loads(l)["id"] for l in open(os.path.join(V, "properties.jsonl"))]
    checks = []
    for pid in props:
        if pid in CHECKS:
            c = CHECKS[pid]
            checks.append({
                "property_id": pid,
                "quick_cmd": f"./check {pid} --tier quick",
                "thorough_cmd": f"./check {pid} --tier thorough",
                "evidence_file": f"/verif/evidence/{pid}.json",
                "replay_cmd_template": "./check replay {path}",
                "engine": c.get("engine", "kani-woven"),
                "level_claimed": {"category": c["category"], "text": c["text"], "design_ref": c["design_ref"]},
                "level_note": c["note"],
                "technique": c["technique"],
            })
    na = []
    for pid in props:
        if pid not in CHECKS:
            na.append({"property_id": pid, "reason": NOT_APPLICABLE.get(pid, PENDING)})
    return {
        "version": 1,
        "setup_cmd": "./check warm",
        "hooks": {
            "guard": "kani",
            "enable": "no source hooks live in /repo: every check copies /repo's working tree to a scratch directory and weaves "
                      "cfg(kani)-guarded contracts/harness modules into the copy (tools/registry.py UNITS); Verus obligations run on "
                      "function text extracted verbatim from the working tree",
            "baseline_off_cmd": BASELINE,
            "source_commits": SOURCE_COMMITS,
            "add_only": True,
        },
        "engines": [
            {"name": "kani-woven", "path": "tools/check.py", "serves_properties": sorted(k for k, v in CHECKS.items() if v.get("engine", "kani-woven") == "kani-woven"), "kind_free_text": "Kani 0.68 function-contract / full-domain harness proofs on the real crates, woven in a scratch copy"},
            {"name": "verus-extracted", "path": "tools/verus_group.py", "serves_properties": sorted(k for k, v in CHECKS.items() if v.get("engine") == "verus-extracted"), "kind_free_text": "Verus on function bodies extracted verbatim from /repo (and from the pinned nix source) each run"},
        ],
        "checks": checks,
        "not_applicable": na,
        "notes": "exit 0 = all obligations discharged; exit 1 + VIOLATION line = a named obligation failed; exit 2 = undecided (lost anchor, timeout, tool limit) - never reported as a violation.",
    }
