#!/bin/bash
# usage: harmless_run.sh <worktree> <outdir-with-harmless-*.diff> <props...> : behaviour-preserving changes must never give exit 1
wt="$1"; out="$2"; shift 2
cd "$(dirname "$0")/.." || exit 2
for d in "$out"/harmless-*.diff; do
  git -C "$wt" checkout -q -- . ; git -C "$wt" apply "$d" || { echo "$d: does not apply"; continue; }
  for p in "$@"; do
    s=$(date +%s); o=$(VERIF_REPO="$wt" ./check "$p" 2>&1); rc=$?; e=$(date +%s)
    echo "$(basename $out)/$(basename $d) $p rc=$rc $((e-s))s $(echo "$o" | grep -E '^(VIOLATION|UNDECIDED)' | head -3 | tr '\n' ' ' | cut -c1-300)"
  done
  git -C "$wt" checkout -q -- .
done
