#!/usr/bin/env python3
"""./check <property-id> [--tier quick|thorough]   decide one property on /repo's working tree
   ./check replay <path>                           re-run a stored counterexample on the real code
   ./check warm                                    pre-build dependency caches (setup)
"""
import argparse
import hashlib
import json
import os
import re
import sys
import time

sys.path.insert(0, os.path.dirname(os.path.abspath(__file__)))
import vlib
from vlib import Undecided, Workspace, log
import registry


# --------------------------------------------------------------------------------------------
def harness_obligations(hspec, ws=None):
    """Named obligations of one harness = the quoted names `Cnn.xxx` inside the harness function's
    body in its source file, plus the `also` list (assertions living in woven probes/helpers).
    For harness files generated at weave time (file == "GEN") the woven workspace is searched."""
    if hspec.get("obligations"):
        return list(hspec["obligations"])
    src, m = None, None
    if hspec["file"] == "GEN":
        if ws is None:
            return [hspec["name"] + ".generated"]
        import glob
        for f in glob.glob(os.path.join(ws.ws, "*", "src", "verif_*.rs")):
            txt = open(f).read()
            mm = re.search(r"fn\s+%s\s*\(" % re.escape(hspec["name"]), txt)
            if mm:
                src, m = txt, mm
    else:
        src = open(os.path.join(vlib.VERIF, hspec["file"])).read()
        m = re.search(r"fn\s+%s\s*\(" % re.escape(hspec["name"]), src)
    if not m:
        raise Undecided(hspec["name"], "harness function not found in " + hspec["file"])
    i = src.index("{", m.end())
    depth, j = 0, i
    while True:
        c = src[j]
        if c == "{":
            depth += 1
        elif c == "}":
            depth -= 1
            if depth == 0:
                break
        j += 1
    body = src[i:j]
    names = []
    for n in re.findall(r"\"(C\d\d\.[A-Za-z0-9_.]+)\"", body):
        if ".cover." in n:
            continue
        if n not in names:
            names.append(n)
    for n in hspec.get("also", []):
        if n not in names:
            names.append(n)
    if hspec.get("unwind_obligation") and hspec["unwind_obligation"] not in names:
        names.append(hspec["unwind_obligation"])
    return names


def weave_units(ws, unit_names):
    done = set()
    for u in unit_names:
        if u in done:
            continue
        done.add(u)
        unit = registry.UNITS[u]
        if unit.get("gen"):
            unit["gen"](ws)
        for dest, src in unit.get("files", []):
            ws.add_file(dest, os.path.join(vlib.VERIF, src))
        groups = {}
        for e in unit.get("edits", []):
            if e.probe_group:
                groups.setdefault(e.probe_group, []).append(e)
        skipped = {g for g, es in groups.items() if not all(ws.anchor_ok(e) for e in es)}
        # a probe group whose statement anchors are lost (locals renamed, loop restructured) may have a
        # pattern-based alternative that anchors on the shared-memory access expressions themselves
        alt_used = {}
        for g in sorted(skipped):
            alt = (unit.get("probe_alt") or {}).get(g)
            if alt and all(ws.anchor_ok(e) for e in alt):
                alt_used[g] = alt
        skipped -= set(alt_used)
        for e in unit.get("edits", []):
            if e.probe_group in skipped or e.probe_group in alt_used:
                continue
            ws.apply(e)
        for g, alt in alt_used.items():
            ws.weave_log.append({"action": "probe group woven through its pattern-based alternative", "group": g,
                                 "why": "a statement anchor of the group is not found in the current source"})
            for e in alt:
                ws.apply(e)
        for g in skipped:
            lost = [e.anchor.strip() for e in groups[g] if not ws.anchor_ok(e)]
            ws.skipped_probe_groups[g] = lost
            ws.weave_log.append({"action": "probe group skipped", "group": g, "lost_anchors": lost,
                                 "why": "an anchor of this ghost-probe group is not found; the obligations guarded by it are reported undecided"})
            # turn the flag off in the harness file(s) of this unit:  `const X: bool = true; //@FLAG <group>`
            for dest, _src in unit.get("files", []):
                txt = ws.read(dest)
                new = re.sub(r"= true;(\s*//@FLAG %s\b)" % re.escape(g), r"= false;\1", txt)
                if new != txt:
                    ws.write(dest, new)


def tier_includes(tier, htier):
    return htier == "quick" or tier == "thorough"


def run_kani_group(prop, grp, tier, obligations, undecided, failures, checker_cmds, ev_extra):
    hs = [h for h in grp["harnesses"] if tier_includes(tier, h.get("tier", "quick"))]
    if not hs:
        return
    ws = Workspace(prop)
    try:
        try:
            weave_units(ws, grp["units"])
        except Undecided as u:
            for h in hs:
                for n in harness_obligations(h):
                    obligations.append({"name": n, "engine": "kani", "result": "undecided",
                                        "reason": u.reason})
            undecided.append({"obligation": "weave", "reason": u.reason, "detail": u.detail})
            return
        ev_extra.setdefault("weave_log", []).extend(ws.weave_log)
        crate = grp["crate"]
        unit0 = next((registry.UNITS[u] for u in grp["units"] if registry.UNITS[u].get("crate") == crate), registry.UNITS[grp["units"][0]])
        features = grp.get("features", unit0.get("features"))
        timeout = max(h.get("timeout", 300) for h in hs) + 600
        res, meta, raw = vlib.kani_run(
            ws, crate, [h["name"] for h in hs], features=features, jobs=grp.get("jobs", 8),
            timeout=timeout, harness_timeout=max(h.get("timeout", 300) for h in hs),
            solver=grp.get("solver"), modpath=grp.get("modpath"), c_lib=grp.get("c_lib"))
        checker_cmds.append(meta["cmd"])
        ev_extra.setdefault("kani_runs", []).append(meta)
        if not res:
            # nothing ran: compile error, tool crash
            tail = raw[-2500:]
            reason = "kani produced no harness result (compile error or tool crash)"
            if meta["timed_out"]:
                reason = "timeout before any harness finished"
            undecided.append({"obligation": f"{crate}:*", "reason": reason, "detail": tail})
        for h in hs:
            names = harness_obligations(h, ws)
            if h.get("only"):
                names = [n for n in names if re.match(h["only"], n)]
            guarded = set()
            for g in ws.skipped_probe_groups:
                for u in grp["units"]:
                    guarded |= set(registry.UNITS[u].get("probe_guards", {}).get(g, []))
            r = res.get(h["name"])
            comp = h.get("completeness", "complete")
            if r is None or r["status"] not in ("SUCCESSFUL", "FAILED"):
                why = "no result" if r is None else r["status"].lower()
                for n in names:
                    obligations.append({"name": n, "engine": "kani", "harness": h["name"],
                                        "result": "undecided", "reason": why, "completeness": comp})
                undecided.append({"obligation": h["name"], "reason": why,
                                  "detail": (r or {}).get("raw", "")[-1500:]})
                continue
            per = (r["time_s"] or 0) / max(1, len(names))
            failed_descs = [f["desc"] for f in r["failed"]]
            covers_ok = r["covers"] is None or r["covers_sat"] == r["covers"]
            vio, und = [], []
            for d in failed_descs:
                if h.get("unwind_obligation") and "unwinding assertion" in d:
                    # for this harness the unwinding bound IS the contract (stated in the harness): a call
                    # on a quiescent / budget-limited segment must leave the retry loop within the bound
                    vio.append(h["unwind_obligation"])
                    continue
                (vio if vlib.classify_failed_check(d) == "violation" else und).append(d)
            if any("missing definition" in d for d in und) and vio:
                # the code under contract called a foreign function that neither the crate nor the C model defines:
                # CBMC lets it return anything, so every other failed check of this harness may be an artefact
                und.extend("possibly an artefact of the unmodelled foreign function: " + d for d in vio)
                vio = []
            if r["status"] == "SUCCESSFUL" and not covers_ok:
                und.append(f"vacuity guard: only {r['covers_sat']} of {r['covers']} cover properties satisfied")
            if r["status"] == "FAILED" and not failed_descs:
                und.append("harness FAILED without a failed check listed")
            base = {"engine": "kani", "backend": grp.get("solver", "cadical"), "harness": h["name"],
                    "solver_s": round(per, 3), "checks_in_harness": r["checks"], "completeness": comp}
            for n in names:
                o = dict(base, name=n)
                if n in guarded:
                    o["result"] = "undecided"
                    o["reason"] = "ghost-probe anchor lost in the source (probe group skipped)"
                    undecided.append({"obligation": n, "reason": o["reason"]})
                elif n in vio:
                    o["result"] = "failed"
                elif und:
                    o["result"] = "undecided"
                    o["reason"] = "; ".join(und)[:300]
                else:
                    o["result"] = "discharged"
                obligations.append(o)
            if h.get("only"):
                vio = [d for d in vio if not re.match(r"C\d\d\.", d) or re.match(h["only"], d)]
            unnamed = [d for d in vio if d not in names]
            if unnamed:
                # built-in safety checks (overflow, panic, pointer) inside the code under contract
                obligations.append(dict(base, name=f"{h['name']}.safety", result="failed",
                                        failed_checks=unnamed))
            elif r["status"] == "SUCCESSFUL" or not und:
                obligations.append(dict(base, name=f"{h['name']}.safety", result="discharged",
                                        note=f"{r['checks']} generated checks incl. built-in overflow/pointer/panic checks"))
            if und:
                undecided.append({"obligation": h["name"], "reason": "; ".join(und)[:300]})
            if vio:
                failures.append({"prop": prop, "group": grp, "harness": h, "failed": vio,
                                 "kani": {k: r[k] for k in ("status", "checks", "failed", "time_s")},
                                 "ws": None})
        # thorough tier: the same harnesses again with a second SAT back end; the verdicts must agree
        if tier == "thorough" and res and not grp.get("solver") and not os.environ.get("VERIF_NO_MUTANTS") \
                and all(r["status"] == "SUCCESSFUL" for r in res.values()):
            res2, meta2, _raw2 = vlib.kani_run(
                ws, crate, [h["name"] for h in hs], features=features, jobs=grp.get("jobs", 8), timeout=timeout,
                harness_timeout=max(h.get("timeout", 300) for h in hs), solver="kissat", modpath=grp.get("modpath"), c_lib=grp.get("c_lib"))
            checker_cmds.append(meta2["cmd"])
            agree = {k: (res2.get(k) or {}).get("status") for k in res}
            ev_extra.setdefault("second_solver", []).append({"solver": "kissat", "harnesses": agree, "wall_s": meta2["wall_s"]})
            for k, st in agree.items():
                if st == "FAILED":
                    undecided.append({"obligation": k, "reason": "cadical discharges this harness but kissat reports a failure (solver disagreement)"})
        # counterexample + native replay for failing harnesses (needs the workspace still present)
        known = vlib.load_known_findings()
        for f in failures:
            if f["ws"] is not None or f["group"] is not grp:
                continue
            f["ws"] = "done"
            names = [d if re.match(r"C\d\d\.", d) else f["harness"]["name"] + ".safety" for d in f["failed"]]
            f["obligations"] = sorted(set(names))
            f["known"] = [k for k in known if k["property"] == prop and k["obligation"] in f["obligations"]]
            f["new"] = [n for n in f["obligations"] if n not in [k["obligation"] for k in f["known"]]]
            if not f["new"]:
                continue
            if any(g.get("playback") for g in failures if g.get("group") is grp):
                continue   # one executable counterexample per group is enough
            only_unwind = bool(f["harness"].get("unwind_obligation")) and set(f["new"]) <= {f["harness"]["unwind_obligation"]}
            replayable = f["harness"].get("replayable", True)
            # a stubbed harness cannot be played back natively anyway: when the group has a native pair that
            # supplies the executable input, do not spend the full budget on Kani's concrete-playback run
            pb_timeout = 240 if (grp.get("pair") and not replayable) else 600
            pb = vlib.kani_playback(ws, crate, f["harness"]["name"], features=features, timeout=pb_timeout,
                                    solver=grp.get("solver"), modpath=grp.get("modpath"),
                                    run_native=f["harness"].get("replayable", True) and not only_unwind, c_lib=grp.get("c_lib"))
            if only_unwind:
                pb["native_output"] = ("not executed natively: the failed obligation is the loop bound itself (the call does not leave the loop "
                                       "within the stated number of iterations), a native run would not terminate")
            f["playback"] = pb
    finally:
        ws.cleanup()


def run_native_group(prop, grp, tier, obligations, undecided, failures, checker_cmds, ev_extra, seed):
    """BOUNDED stand-in: the real functions executed natively over a stated finite set of inputs
    (woven under cfg(verif_search)).  Its obligations are never counted as proved."""
    ws = Workspace(prop + "-native")
    try:
        weave_units(ws, grp["units"])
        sr = vlib.native_search(ws, grp["crate"], grp["test"], features=grp.get("features"), targets=(), seed=seed,
                                target_sel=grp.get("target_sel", ("--lib",)), release=grp.get("release", False))
        checker_cmds.append(sr["cmd"])
        comp = "bounded: " + grp["bound"]
        if not sr["ran"]:
            for n in grp["obligations"]:
                obligations.append({"name": n, "engine": "native", "result": "undecided", "completeness": comp, "reason": "did not run"})
            undecided.append({"obligation": grp["test"], "reason": "native bounded check did not run (compile error?)", "detail": sr["output"][-1500:]})
            return
        ev_extra.setdefault("native_bounded", []).append({"test": grp["test"], "evaluations": sr["evaluations"], "bound": grp["bound"]})
        bad = [n for n in grp["obligations"] if n in sr["found"]]
        for n in grp["obligations"]:
            obligations.append({"name": n, "engine": "native execution of the real code", "result": "failed" if n in bad else "discharged",
                                "completeness": comp, "solver_s": round(sr["wall_s"] / max(1, len(grp["obligations"])), 3)})
        if bad:
            pair = {"kind": "search", "crate": grp["crate"], "units": grp["units"], "features": grp.get("features"), "test": grp["test"],
                    "target_sel": list(grp.get("target_sel", ("--lib",))), "release": grp.get("release", False)}
            failures.append({"prop": prop, "group": dict(grp, kind="native", pair=pair), "harness": {"name": grp["test"], "replayable": True},
                             "failed": bad, "obligations": bad, "native": {"found": sr["found"]}, "ws": "done",
                             "search": {"pair": pair, "input": sr["found"][bad[0]], "found": sr["found"], "evaluations": sr["evaluations"]},
                             "search_hit": bad[0], "found_input_native": True})
    except Undecided as u:
        undecided.append({"obligation": u.obligation, "reason": u.reason, "detail": u.detail[-800:]})
    finally:
        ws.cleanup()


# --------------------------------------------------------------------------------------------
def write_replay(prop, f):
    d = os.path.join(os.environ.get("VERIF_REPLAY_DIR", os.path.join(vlib.VERIF, "replays")), prop)
    os.makedirs(d, exist_ok=True)
    ob = f["new"][0]
    path = os.path.join(d, re.sub(r"[^A-Za-z0-9_.-]", "_", ob) + ".json")
    pb = f.get("playback") or {}
    src = f.get("pair") or f           # the Kani failure that carries the executable counterexample
    kgrp = src["group"] if src["group"]["kind"] == "kani" else None
    doc = {
        "property": prop, "obligation": ob, "all_failed_obligations": f["obligations"],
        "deciding_engine": f["group"]["kind"],
        "engine": "kani" if kgrp else f["group"]["kind"],
        "crate": kgrp.get("crate") if kgrp else None,
        "units": kgrp.get("units") if kgrp else None,
        "features": (kgrp.get("features") or next((registry.UNITS[u].get("features") for u in kgrp["units"]
                                                     if registry.UNITS[u].get("crate") == kgrp.get("crate")), None)) if kgrp else None,
        "harness": src["harness"]["name"], "harness_file": src["harness"].get("file"),
        "replayable_natively": bool(src["harness"].get("replayable", True)) and bool(kgrp),
        "verifier_output": f.get("kani") or f.get("verus") or f.get("cbmc") or f.get("native"),
        "paired_kani_output": (f.get("pair") or {}).get("kani"),
        "concrete_playback_tests": pb.get("tests", []),
        "native_replay_failed": pb.get("native_failed"),
        "native_replay_output": pb.get("native_output"),
        "how_to_replay": f"./check replay {path}",
    }
    if f.get("search"):
        doc["replay_obligation"] = f.get("search_hit")
        doc["engine"] = "native-search"
        doc["search"] = {k: f["search"][k] for k in ("pair", "input", "found", "evaluations")}
        doc["replayable_natively"] = True
    with open(path, "w") as fh:
        json.dump(doc, fh, indent=1)
    return path, doc


def sanity_mutants(prop, undecided):
    import glob
    import shutil
    import subprocess
    import tempfile
    out = []
    for d in sorted(glob.glob(os.path.join(vlib.VERIF, "seeded", "*", ""))):
        mp = os.path.join(d, "meta.json")
        if not os.path.exists(mp) or not os.path.exists(os.path.join(d, "patch.diff")):
            continue
        meta = json.load(open(mp))
        if prop not in (meta.get("checks_to_run") or [meta["property"]]):
            continue
        name = os.path.basename(d.rstrip("/"))
        tmp = tempfile.mkdtemp(prefix=f"verif-{prop}-mutant-", dir=vlib.SCRATCH_ROOT)
        try:
            scratch = os.path.join(tmp, "repo")
            vlib.run(["rsync", "-a", "--exclude", "target", "--exclude", ".git", vlib.REPO + "/", scratch + "/"])
            rc, o, _, _ = vlib.run(["patch", "-p1", "-s", "-f", "--no-backup-if-mismatch", "-i", os.path.join(d, "patch.diff")], cwd=scratch, timeout=60)
            if rc != 0:
                out.append({"mutant": name, "applied": False, "note": "patch does not apply to the current tree (skipped)"})
                continue
            env = dict(os.environ, VERIF_REPO=scratch, VERIF_EVIDENCE_DIR=os.path.join(tmp, "evidence"),
                       VERIF_REPLAY_DIR=os.path.join(tmp, "replays"), VERIF_NO_MUTANTS="1")
            t0 = time.time()
            p = subprocess.run([sys.executable, os.path.abspath(__file__), prop, "--tier", "quick"], env=env,
                               stdout=subprocess.PIPE, stderr=subprocess.STDOUT, text=True, cwd=vlib.VERIF)
            failed = re.findall(r"failed obligations: (.*)", p.stdout)
            out.append({"mutant": name, "applied": True, "exit": p.returncode, "wall_s": round(time.time() - t0, 1),
                        "failed_obligations": "; ".join(failed)[:300]})
            log(f"  sanity mutant {name}: exit {p.returncode}")
            if p.returncode == 0:
                # keep what the child printed: a miss has to be diagnosable afterwards
                rd = os.path.join(os.environ.get("VERIF_REPLAY_DIR", os.path.join(vlib.VERIF, "replays")), prop)
                keep = os.path.join(rd, f"sanity-mutant-{name}.log")
                try:
                    os.makedirs(rd, exist_ok=True)
                    with open(keep, "w") as f:
                        f.write(p.stdout)
                except OSError:
                    keep = "(could not be written)"
                undecided.append({"obligation": "sanity-mutant:" + name,
                                  "reason": "a kept seeded breaking change is NOT detected by this check any more: the contracts are too weak"
                                            f" (output of the run on the changed copy: {keep})"})
        finally:
            shutil.rmtree(tmp, ignore_errors=True)
    return out


def paired_native_search(prop, f, pair, seed, checker_cmds, ev_extra):
    """Look for an executable failing input of the failed clauses with the paired native search on the
    real code.  Returns True when one was found (recorded in f["search"])."""
    found_input = False
    sws = Workspace(prop + "-search")
    try:
        weave_units(sws, pair["units"])
        sr = vlib.native_search(sws, pair["crate"], pair["test"], features=pair.get("features"),
                                targets=(), seed=seed)
        checker_cmds.append(sr["cmd"])
        hit = [n for n in f["new"] if n in sr["found"]]
        if not hit:
            # a failed contract of a callee/constant shows up as a failing clause of the
            # function that uses it: accept any clause of this property
            hit = [n for n in sr["found"] if n.startswith(prop + ".")]
        if hit:
            found_input = True
            f["search_hit"] = hit[0]
            f["search"] = {"pair": pair, "input": sr["found"][hit[0]], "found": sr["found"],
                           "evaluations": sr["evaluations"], "output": sr["output"][-1500:]}
        ev_extra.setdefault("paired_search", []).append(
            {"for": f["new"], "engine": "native search on the real function", "evaluations": sr["evaluations"],
             "found_failing_input": found_input, "ran": sr["ran"]})
    except Undecided:
        pass
    finally:
        sws.cleanup()
    return found_input


def decide(prop, tier, seed):
    t0 = time.time()
    spec = registry.PROPS[prop]
    obligations, undecided, failures, checker_cmds, ev_extra = [], [], [], [], {}
    for grp in spec["groups"]:
        if not tier_includes(tier, grp.get("tier", "quick")):
            continue
        try:
            if grp["kind"] == "kani":
                run_kani_group(prop, grp, tier, obligations, undecided, failures, checker_cmds, ev_extra)
            elif grp["kind"] == "verus":
                import verus_group
                verus_group.run(prop, grp, tier, obligations, undecided, failures, checker_cmds, ev_extra)
            elif grp["kind"] == "native":
                run_native_group(prop, grp, tier, obligations, undecided, failures, checker_cmds, ev_extra, seed)
            elif grp["kind"] == "cbmc":
                import cbmc_group
                cbmc_group.run(prop, grp, tier, obligations, undecided, failures, checker_cmds, ev_extra)
            else:
                raise ValueError(grp["kind"])
        except Undecided as u:
            undecided.append({"obligation": u.obligation, "reason": u.reason, "detail": u.detail[-1500:]})

    # ---- verdict -----------------------------------------------------------------------------
    violations = 0
    lines = []
    known_all = vlib.load_known_findings()
    # one executable counterexample per Kani group: fold the other failing harnesses of the group
    # into the failure that carries it
    for f in list(failures):
        if f["group"].get("kind") == "kani" and not f.get("playback") and f.get("new"):
            lead = next((g for g in failures if g is not f and g.get("group") is f["group"] and g.get("playback")), None)
            if lead is not None:
                lead["new"] = lead["new"] + [n for n in f["new"] if n not in lead["new"]]
                lead["obligations"] = sorted(set(lead["obligations"]) | set(f["obligations"]))
                lead.setdefault("also_failing_harnesses", []).append(f["harness"]["name"])
                f["new"] = []
    reported_with_input = set()
    for f in failures:
        if f.get("out_of_reach"):
            # verifier could not process the changed code: bounded native evaluation as stand-in
            pair = f["group"]["pair"]
            hit, sr = [], None
            sws = Workspace(prop + "-search")
            try:
                weave_units(sws, pair["units"])
                sr = vlib.native_search(sws, pair["crate"], pair["test"], features=pair.get("features"), targets=(), seed=seed)
                checker_cmds.append(sr["cmd"])
                hit = [n for n in f["candidates"] if n in sr["found"]]
            except Undecided:
                pass
            finally:
                sws.cleanup()
            ev_extra.setdefault("paired_search", []).append(
                {"for": "verifier could not process the function", "engine": "native evaluation of the contract clauses (bounded stand-in)",
                 "evaluations": sr and sr["evaluations"], "found_failing_input": bool(hit)})
            if not hit:
                undecided.append(f["undecided_entry"])
                continue
            f["obligations"] = hit
            f["search_hit"] = hit[0]
            f["search"] = {"pair": pair, "input": sr["found"][hit[0]], "found": sr["found"], "evaluations": sr["evaluations"],
                           "output": sr["output"][-1500:]}
            f["decided_by_bounded_stand_in"] = True
            for o in obligations:
                if o["name"] in hit:
                    o["result"] = "failed"
                    o["reason"] = "failing input found by the bounded native evaluation; the verifier could not process the changed function: " + f["verus"]["unprocessable"][:200]
            known = [k for k in known_all if k["property"] == prop and k["obligation"] in hit]
            f["known"] = known
            f["new"] = [n for n in hit if n not in [k["obligation"] for k in known]]
            for k in known:
                lines.append(f"KNOWN-FINDING: property={prop} {k['obligation']} {k['what']}")
            if f["new"]:
                path, doc = write_replay(prop, f)
                violations += 1
                lines.append(f"VIOLATION property={prop} replay={path}")
                lines.append(f"  failed obligations: {', '.join(f['new'])} (bounded native evaluation; verifier could not process the changed function)")
            continue
        if "known" not in f:  # verus / cbmc groups: known-finding matching happens here
            f["known"] = [k for k in known_all if k["property"] == prop and k["obligation"] in f["obligations"]]
            f["new"] = [n for n in f["obligations"] if n not in [k["obligation"] for k in f["known"]]]
        for k in f.get("known", []):
            lines.append(f"KNOWN-FINDING: property={prop} {k['obligation']} {k['what']}")
            for o in obligations:
                if o["name"] == k["obligation"] and o["result"] == "failed":
                    o["result"] = "known-finding"
        if not f.get("new"):
            continue
        kind = f["group"]["kind"]
        pb = f.get("playback")
        if kind == "native":
            found_input = True
        elif kind == "kani":
            replayable = f["harness"].get("replayable", True)
            if replayable and pb and pb.get("native_failed") is False:
                # verifier reports a failure that the native run of the same values does not reproduce
                undecided.append({"obligation": f["new"][0],
                                  "reason": "verifier counterexample did not reproduce natively",
                                  "detail": (pb.get("native_output") or "")[-1500:]})
                for o in obligations:
                    if o["name"] in f["new"]:
                        o["result"] = "undecided"
                continue
            found_input = bool(pb and pb.get("tests"))
            pair = f["group"].get("pair")
            if pair and pair.get("kind") == "search" and (not found_input or not replayable):
                # the harness stubs part of the environment, so Kani's values cannot be executed natively:
                # obtain an executable failing input for the same clause from the paired native stand-in
                # (Kani's concrete values, if any, stay in the replay file)
                found_input = paired_native_search(prop, f, pair, seed, checker_cmds, ev_extra) or found_input
        else:
            # Verus gives no model: obtain a failing input from the paired search on the real code
            found_input = False
            pair = f["group"].get("pair")
            if pair and pair["kind"] == "search":
                found_input = paired_native_search(prop, f, pair, seed, checker_cmds, ev_extra)
            elif pair:
                pf, po, pu = [], [], []
                try:
                    run_kani_group(prop, pair, "thorough", po, pu, pf, checker_cmds, ev_extra)
                except Undecided:
                    pass
                for cand in pf:
                    cpb = cand.get("playback") or {}
                    if cpb.get("tests") and cpb.get("native_failed") is not False:
                        f["pair"] = cand
                        f["playback"] = cpb
                        found_input = True
                        break
                ev_extra.setdefault("paired_search", []).append(
                    {"for": f["new"], "harnesses": [h["name"] for h in pair["harnesses"]],
                     "found_failing_input": found_input})
            only_float = set(f["new"]) <= set(f.get("float_dependent", []))
            if only_float and not found_input:
                # DESIGN 3.5: obligations keyed to the shape of the float expression are a violation
                # only together with a replayable failing input
                for o in obligations:
                    if o["name"] in f["new"]:
                        o["result"] = "undecided"
                        o["reason"] = ("Verus failure on an obligation that rests on " + (f["group"].get("needs_input_reason") or "a shape-keyed float axiom")
                                       + ", without a failing input from the paired bit-precise / native check")
                undecided.append({"obligation": f["new"][0], "reason":
                                  "obligation resting on " + (f["group"].get("needs_input_reason") or "a shape-keyed float axiom")
                                  + " failed in Verus but the paired check found no failing input"})
                continue
        if found_input and set(f["new"]) <= reported_with_input:
            continue        # the same clauses were already reported, with a failing input, by another engine of this check
        path, doc = write_replay(prop, f)
        violations += 1
        if found_input:
            reported_with_input |= set(f["new"])
        suffix = "" if found_input else " no-failing-input-found"
        lines.append(f"VIOLATION property={prop} replay={path}{suffix}")
        lines.append(f"  failed obligations: {', '.join(f['new'])}")

    # ---- thorough tier: sanity mutants -------------------------------------------------------
    # every kept seeded change that names this property must still turn an obligation red when it is
    # applied to a scratch copy of the current tree; a contract that survives it is too weak (exit 2)
    if tier == "thorough" and not violations and not os.environ.get("VERIF_NO_MUTANTS"):
        ev_extra["sanity_mutants"] = sanity_mutants(prop, undecided)

    n_disch = sum(1 for o in obligations if o["result"] == "discharged")
    if not obligations:
        undecided.append({"obligation": "*", "reason": "no obligation was generated (vacuity guard)"})
    samples = []
    own = sorted(obligations, key=lambda x: (not x["name"].startswith(prop + "."), not x.get("contract")))
    for o in own[:8]:
        samples.append({k: o[k] for k in ("name", "engine", "harness", "result", "contract", "completeness") if k in o})
    trusted = list(spec.get("trusted", []))
    tv = vlib.tool_versions()
    trusted += [f"{k}: {v}" for k, v in tv.items()]
    vlib.write_evidence(
        prop, tier, seed, obligations, spec.get("assumptions", []), trusted, spec.get("functions", []),
        checker_cmds, samples, time.time() - t0, violations, extra=ev_extra, undecided=undecided)
    for l in lines:
        log(l)
    log(f"[{prop}] tier={tier} obligations={len(obligations)} discharged={n_disch} "
        f"violations={violations} undecided={len(undecided)} wall={time.time()-t0:.1f}s")
    if violations:
        return 1
    if undecided:
        for u in undecided:
            log(f"UNDECIDED property={prop} obligation={u['obligation']} reason={u['reason']}")
            if u.get("detail") and os.environ.get("VERIF_VERBOSE"):
                log(u["detail"])
        return 2
    return 0


# --------------------------------------------------------------------------------------------
def replay(path):
    doc = json.load(open(path))
    prop = doc["property"]
    tests = doc.get("concrete_playback_tests") or []
    if doc.get("engine") == "native-search":
        pair = doc["search"]["pair"]
        ws = Workspace(prop + "-replay")
        try:
            weave_units(ws, pair["units"])
            sr = vlib.native_search(ws, pair["crate"], pair["test"], features=pair.get("features"),
                                    replay_input=doc["search"]["input"], target_sel=pair.get("target_sel", ("--lib",)),
                                    release=pair.get("release", False))
            log(sr["output"][-2500:])
            if not sr["ran"]:
                log("replay could not be executed")
                return 2
            if doc["obligation"] in sr["found"] or sr["found"]:
                log(f"VIOLATION property={prop} replay={path}")
                return 1
            log(f"replay of {doc['obligation']} passes on the current tree")
            return 0
        except Undecided as u:
            log(f"UNDECIDED property={prop} obligation={u.obligation} reason={u.reason}")
            return 2
        finally:
            ws.cleanup()
    if doc.get("engine") == "kani" and tests and not doc.get("replayable_natively", True):
        log(f"replay file {path}: the counterexample of obligation {doc['obligation']} was found in a harness that models part of the "
            f"environment (stubs / C model), so it cannot be executed natively; Kani's concrete values are in the file. "
            f"Re-running the deciding check on the current tree instead:")
        return decide(prop, "quick", 0)
    if doc.get("engine") != "kani" or not tests:
        log(f"replay file {path}: no concrete input recorded for obligation {doc['obligation']}; "
            f"verifier output follows")
        log(json.dumps(doc.get("verifier_output"), indent=1)[:4000])
        # re-run the deciding check itself: the obligation either fails again or not
        return decide(prop, "quick", 0)
    ws = Workspace(prop + "-replay")
    try:
        weave_units(ws, doc["units"])
        t = tests[0]
        src = ws.read(t["file"])
        ws.write(t["file"], src + "\n" + t["text"])
        crate = doc["crate"]
        cmd = ["cargo", "kani", "playback", "-Z", "concrete-playback", "-p", crate]
        if doc.get("features"):
            cmd += ["--features", doc["features"]]
        with vlib.TargetLock("kani-" + crate, ws) as target:
            rc, out, to, _ = vlib.run(cmd + ["--lib", "--", t["name"]], cwd=ws.ws, timeout=900,
                                      env={"CARGO_TARGET_DIR": os.path.join(target, "playback")})
        log(out[-3000:])
        m = re.search(r"test result: (\w+)\. (\d+) passed; (\d+) failed", out)
        if m and int(m.group(3)) > 0:
            log(f"VIOLATION property={prop} replay={path}")
            return 1
        if m and int(m.group(2)) > 0:
            log(f"replay of {doc['obligation']} passes on the current tree")
            return 0
        log("replay could not be executed")
        return 2
    except Undecided as u:
        log(f"UNDECIDED property={prop} obligation={u.obligation} reason={u.reason}")
        return 2
    finally:
        ws.cleanup()


def warm():
    """Pre-build the dependency graph of each crate (Kani and native) so that the checks start fast.
    Purely a cache: everything is rebuilt on demand if it is missing."""
    seen = set()
    for prop, spec in registry.PROPS.items():
        for grp in spec["groups"]:
            if grp["kind"] == "kani" and grp["crate"] not in seen:
                seen.add(grp["crate"])
                ws = Workspace("warm")
                try:
                    weave_units(ws, grp["units"])
                    feats = next((registry.UNITS[u].get("features") for u in grp["units"] if registry.UNITS[u].get("crate") == grp["crate"]), None)
                    with vlib.TargetLock("kani-" + grp["crate"], ws) as target:
                        cmd = ["cargo", "kani", "-p", grp["crate"]] + vlib.KANI_FLAGS + ["--only-codegen", "--target-dir", target]
                        if feats:
                            cmd += ["--features", feats]
                        r, out, to, secs = vlib.run(cmd, cwd=ws.ws, timeout=1800)
                    log(f"warm kani {grp['crate']}: rc={r} {secs:.0f}s")
                except Undecided as u:
                    log(f"warm kani {grp['crate']}: skipped ({u})")
                finally:
                    ws.cleanup()
            if grp["kind"] == "native" and ("native", grp["crate"]) not in seen:
                seen.add(("native", grp["crate"]))
                ws = Workspace("warm")
                try:
                    weave_units(ws, grp["units"])
                    cmd = ["cargo", "test", "--offline", "-p", grp["crate"], "--lib", "--no-run"]
                    if grp.get("features"):
                        cmd += ["--features", grp["features"]]
                    with vlib.TargetLock("native-" + grp["crate"], ws) as target:
                        r, out, to, secs = vlib.run(cmd, cwd=ws.ws, timeout=1800, env={"RUSTFLAGS": "--cfg verif_search", "CARGO_TARGET_DIR": target})
                    log(f"warm native {grp['crate']}: rc={r} {secs:.0f}s")
                except Undecided as u:
                    log(f"warm native {grp['crate']}: skipped ({u})")
                finally:
                    ws.cleanup()
    return 0


def main():
    ap = argparse.ArgumentParser()
    ap.add_argument("what")
    ap.add_argument("arg", nargs="?")
    ap.add_argument("--tier", default=os.environ.get("VERIF_TIER", "quick"))
    a = ap.parse_args()
    seed = int(os.environ.get("VERIF_SEED", "0") or 0)
    if a.what == "replay":
        sys.exit(replay(a.arg))
    if a.what == "warm":
        sys.exit(warm())
    if a.what not in registry.PROPS:
        log(f"unknown property {a.what}")
        sys.exit(2)
    tier = a.tier if a.tier in ("quick", "thorough") else "quick"
    sys.exit(decide(a.what, tier, seed))


if __name__ == "__main__":
    main()
