#!/usr/bin/env python3
"""Common machinery for the contract checks: scratch workspace, weaver, Kani / Verus / CBMC drivers,
result classification, evidence writer.  See DESIGN.md section 3.

Verdict codes used everywhere:
  0  every obligation discharged
  1  a named obligation failed (VIOLATION)
  2  undecided (lost anchor, timeout, tool crash, unsupported construct)
"""
import fcntl
import json
import os
import re
import shutil
import signal
import subprocess
import sys
import tempfile
import time

VERIF = os.path.dirname(os.path.dirname(os.path.abspath(__file__)))
REPO = os.environ.get("VERIF_REPO", "/repo")
SCRATCH_ROOT = os.environ.get("VERIF_SCRATCH", "/var/tmp")
CACHE_ROOT = os.path.join(SCRATCH_ROOT, "verif-cache")  # dependency build cache only; safe to delete
KANI_FLAGS = ["-Z", "function-contracts", "-Z", "stubbing", "-Z", "unstable-options"]
CRATES = ["clock-bound-shm", "clock-bound-ffi", "clock-bound-client", "clock-bound-d", "examples"]


class Undecided(Exception):
    """Raised for anything that must end in exit 2 (never a violation)."""

    def __init__(self, obligation, reason, detail=""):
        super().__init__(f"{obligation}: {reason}")
        self.obligation = obligation
        self.reason = reason
        self.detail = detail


def log(msg):
    print(msg, flush=True)


# --------------------------------------------------------------------------------------------
# process helpers
# --------------------------------------------------------------------------------------------
def run(cmd, cwd=None, timeout=None, env=None, stdin=None):
    """Run a command in its own process group; on timeout kill the whole group (cbmc children
    survive a plain kill of cargo-kani).  Returns (rc, output, timed_out, seconds)."""
    e = dict(os.environ)
    e.setdefault("CARGO_NET_OFFLINE", "true")
    if env:
        e.update(env)
    t0 = time.time()
    p = subprocess.Popen(
        cmd, cwd=cwd, env=e, stdout=subprocess.PIPE, stderr=subprocess.STDOUT,
        stdin=subprocess.PIPE if stdin is not None else subprocess.DEVNULL,
        start_new_session=True, text=True, errors="replace",
    )
    timed_out = False
    try:
        out, _ = p.communicate(input=stdin, timeout=timeout)
    except subprocess.TimeoutExpired:
        timed_out = True
        try:
            os.killpg(p.pid, signal.SIGKILL)
        except ProcessLookupError:
            pass
        out, _ = p.communicate()
    return p.returncode, out, timed_out, time.time() - t0


# --------------------------------------------------------------------------------------------
# scratch workspace + weaver
# --------------------------------------------------------------------------------------------
class Edit:
    """One mechanical, logged edit of the scratch copy, anchored on a literal source fragment.

    mode: 'before' | 'after' | 'replace' (relative to the anchor text) | 'append' (end of file).
    The anchor must occur exactly once (or `occurrence` selects one of several); otherwise the
    check ends undecided (exit 2)."""

    def __init__(self, file, anchor, mode, text, why="", alt_anchors=(), probe_group=None, scope_fn=None, count=None):
        # mode 'regex': `anchor` is a pattern, `text` the replacement (may use \g<0>); every match inside
        # the body of function `scope_fn` (whole file if None) is rewritten; `count` = required number of
        # matches (None: at least one)
        self.file, self.anchor, self.mode, self.text, self.why = file, anchor, mode, text, why
        self.scope_fn, self.count = scope_fn, count
        self.alt_anchors = tuple(alt_anchors)
        # edits of one probe group are woven all-or-nothing; if an anchor is lost the group is skipped,
        # its flag in the harness file is turned off and only the obligations guarded by it are undecided
        self.probe_group = probe_group


class Workspace:
    def __init__(self, tag):
        os.makedirs(SCRATCH_ROOT, exist_ok=True)
        self.dir = tempfile.mkdtemp(prefix=f"verif-{tag}-", dir=SCRATCH_ROOT)
        self.ws = os.path.join(self.dir, "ws")
        self.weave_log = []
        self.skipped_probe_groups = {}
        rc, out, _, _ = run(
            ["rsync", "-a", "--exclude", "target", "--exclude", ".git", REPO + "/", self.ws + "/"])
        if rc != 0:
            raise Undecided("setup", "rsync of /repo failed", out)

    def _regex_scope(self, e, s):
        if not e.scope_fn:
            return 0, len(s)
        import extract as ex
        try:
            st, _ob, en = ex.item(s, r"^\s*(?:pub(?:\([a-z]+\))? )?fn %s\s*[(<]" % re.escape(e.scope_fn), "fn " + e.scope_fn)
        except ex.ExtractError:
            return None
        return st, en

    def anchor_ok(self, e):
        if e.mode == "append":
            return True
        s = self.read(e.file)
        if e.mode == "regex":
            rng = self._regex_scope(e, s)
            if rng is None:
                return False
            n = len(re.findall(e.anchor, s[rng[0]:rng[1]]))
            return n == e.count if e.count is not None else n >= 1
        return any(s.count(a) == 1 for a in (e.anchor,) + e.alt_anchors)

    def path(self, rel):
        return os.path.join(self.ws, rel)

    def read(self, rel):
        with open(self.path(rel)) as f:
            return f.read()

    def write(self, rel, text):
        with open(self.path(rel), "w") as f:
            f.write(text)

    def add_file(self, rel, src):
        shutil.copyfile(src, self.path(rel))
        self.weave_log.append({"file": rel, "action": "add-file", "from": os.path.relpath(src, VERIF)})

    def apply(self, e: Edit):
        s = self.read(e.file)
        if e.mode == "append":
            self.write(e.file, s + e.text)
            self.weave_log.append({"file": e.file, "action": "append", "text": e.text.strip(), "why": e.why})
            return
        if e.mode == "regex":
            rng = self._regex_scope(e, s)
            if rng is None or not self.anchor_ok(e):
                raise Undecided("weave", f"pattern anchor lost in {e.file}", e.anchor)
            seg, n = re.subn(e.anchor, e.text, s[rng[0]:rng[1]])
            self.write(e.file, s[:rng[0]] + seg + s[rng[1]:])
            self.weave_log.append({"file": e.file, "action": "rewrite every match of a pattern" + (f" inside fn {e.scope_fn}" if e.scope_fn else ""),
                                   "pattern": e.anchor, "matches": n, "text": e.text, "why": e.why})
            return
        anchor = None
        for a in (e.anchor,) + e.alt_anchors:
            if s.count(a) == 1:
                anchor = a
                break
        if anchor is None:
            n = s.count(e.anchor)
            raise Undecided(
                "weave", f"anchor {'lost' if n == 0 else 'ambiguous (%d matches)' % n} in {e.file}",
                e.anchor)
        if e.mode == "before":
            new = s.replace(anchor, e.text + anchor)
        elif e.mode == "after":
            new = s.replace(anchor, anchor + e.text)
        elif e.mode == "replace":
            new = s.replace(anchor, e.text)
        else:
            raise ValueError(e.mode)
        self.write(e.file, new)
        self.weave_log.append({"file": e.file, "action": e.mode, "anchor": anchor.strip(),
                               "text": e.text.strip(), "why": e.why})

    def cleanup(self):
        shutil.rmtree(self.dir, ignore_errors=True)


class TargetLock:
    """Serialises use of one cached cargo target directory, and makes cargo's freshness test sound for it.

    Cargo names the artifacts of a path package after its workspace-relative path and decides freshness
    by comparing source mtimes with the dep-info file of the last build - the absolute location of the
    workspace copy does not enter.  Every woven copy of /repo therefore maps to the SAME artifacts in a
    shared target directory, and a copy whose files are older than the last build made from a DIFFERENT
    copy (a check that waited for this lock while another one built; an unwoven dependency crate whose
    files keep /repo's old mtimes) would silently be verified against the other copy's code.  Measured:
    a seeded change went undetected once, and a clean tree failed to compile once, both under concurrent
    runs.  Cure: whenever the directory was last used by another copy, every source file of this copy is
    touched after the lock is held, so it is newer than anything built before."""

    def __init__(self, name, ws=None):
        os.makedirs(CACHE_ROOT, exist_ok=True)
        self.target = os.path.join(CACHE_ROOT, name)
        os.makedirs(self.target, exist_ok=True)
        self.lockfile = os.path.join(CACHE_ROOT, name + ".lock")
        self.ws = ws

    def __enter__(self):
        self.fd = open(self.lockfile, "w")
        fcntl.flock(self.fd, fcntl.LOCK_EX)
        if self.ws is not None:
            stamp = os.path.join(self.target, ".verif-last-copy")
            try:
                last = open(stamp).read()
            except OSError:
                last = ""
            if last != self.ws.dir:
                for root, dirs, files in os.walk(self.ws.ws):
                    dirs[:] = [d for d in dirs if d not in ("target", ".git")]
                    for f in files:
                        try:
                            os.utime(os.path.join(root, f), None)
                        except OSError:
                            pass
                with open(stamp, "w") as f:
                    f.write(self.ws.dir)
        return self.target

    def __exit__(self, *a):
        fcntl.flock(self.fd, fcntl.LOCK_UN)
        self.fd.close()


# --------------------------------------------------------------------------------------------
# Kani driver
# --------------------------------------------------------------------------------------------
UNDECIDED_PATTERNS = [
    r"unwinding assertion", r"is not currently supported by Kani", r"unsupported",
    r"recursion unwinding", r"not supported",
    # a foreign function that neither the crate nor the C model defines: a limit of the model, not a defect
    r"with missing definition is unreachable", r"missing definition",
]


def _parse_block(name, block):
    r = {"harness": name, "status": "UNKNOWN", "checks": 0, "failed": [], "unreachable": 0,
         "covers": None, "covers_sat": None, "time_s": None, "undetermined": 0}
    m = re.search(r"\*\* (\d+) of (\d+) failed(?: \(([^)]*)\))?", block)
    if m:
        r["checks"] = int(m.group(2))
        extra = m.group(3) or ""
        mu = re.search(r"(\d+) unreachable", extra)
        if mu:
            r["unreachable"] = int(mu.group(1))
        mu = re.search(r"(\d+) undetermined", extra)
        if mu:
            r["undetermined"] = int(mu.group(1))
    m = re.search(r"\*\* (\d+) of (\d+) cover properties satisfied", block)
    if m:
        r["covers_sat"], r["covers"] = int(m.group(1)), int(m.group(2))
    for m in re.finditer(r"Failed Checks: (.*)\n(?:\s*File: \"([^\"]*)\", line (\d+), in (\S+))?", block):
        r["failed"].append({"desc": m.group(1).strip(), "file": m.group(2), "line": m.group(3),
                            "in": m.group(4)})
    m = re.search(r"VERIFICATION:- (\w+)", block)
    if m:
        r["status"] = m.group(1)
    m = re.search(r"Verification Time: ([0-9.]+)s", block)
    if m:
        r["time_s"] = float(m.group(1))
    if "TIMEOUT" in block or "timed out" in block.lower():
        r["status"] = "TIMEOUT"
    r["raw"] = block.strip()[-3000:]
    return r


def parse_kani_terse(out):
    """Split the terse output of `cargo kani -j N` into per-harness results.  With several worker
    threads the `Thread k: Checking harness X...` announcement and the result block of the same
    thread are not adjacent, so blocks are attributed through the thread number."""
    res = {}
    cur_of_thread = {}
    blocks = {}       # harness -> list of lines
    active = None     # harness whose result block is being read
    for line in out.splitlines():
        m = re.match(r"(?:Thread (\d+): )?Checking harness (\S+?)\.\.\.", line)
        if m:
            th = m.group(1) or "0"
            cur_of_thread[th] = m.group(2)
            blocks.setdefault(m.group(2), [])
            active = m.group(2) if m.group(1) is None else None
            continue
        m = re.match(r"Thread (\d+): (.*)", line)
        if m:
            th, rest = m.group(1), m.group(2)
            h = cur_of_thread.get(th)
            if rest.strip() == "":
                active = h          # the (unprefixed) result block of this thread follows
            else:
                active = None
                if h:
                    blocks[h].append(rest)
            continue
        if line.startswith("Manual Harness Summary") or line.startswith("Complete - "):
            active = None
            continue
        if active:
            blocks[active].append(line)
    for h, lines in blocks.items():
        res[h.split("::")[-1]] = _parse_block(h, "\n".join(lines) + "\n")
    return res


def kani_run(ws, crate, harnesses, features=None, jobs=8, timeout=900, harness_timeout=None,
             solver=None, extra=(), modpath=None, c_lib=None):
    """Run the named harnesses of one crate of the woven workspace.  Returns (results, cmd, raw)."""
    cmd = ["cargo", "kani", "-p", crate] + KANI_FLAGS
    if features:
        cmd += ["--features", features]
    cmd += ["--output-format", "terse", "-j", str(jobs)]
    if harness_timeout:
        cmd += ["--harness-timeout", f"{int(harness_timeout)}s"]
    if solver:
        cmd += ["--solver", solver]
    cmd += list(extra)
    if c_lib:
        cmd += ["-Z", "c-ffi", "--c-lib", os.path.join(VERIF, c_lib)]
    if modpath:
        cmd += ["--exact"]
    for h in harnesses:
        cmd += ["--harness", (modpath + "::" + h) if modpath else h]
    with TargetLock("kani-" + crate, ws) as target:
        cmd_t = cmd + ["--target-dir", target]
        rc, out, timed_out, secs = run(cmd_t, cwd=ws.ws, timeout=timeout)
    res = parse_kani_terse(out)
    meta = {"rc": rc, "timed_out": timed_out, "wall_s": round(secs, 2), "cmd": " ".join(cmd)}
    return res, meta, out


def kani_playback(ws, crate, harness, features=None, timeout=600, solver=None, modpath=None, run_native=True, c_lib=None):
    """Obtain Kani's concrete counterexample for one failing harness (written in place into the
    woven harness file as a #[test]) and execute it natively against the real code with
    `cargo kani playback`.  Returns dict(test_text, native_failed, native_output)."""
    base = ["cargo", "kani", "-p", crate] + KANI_FLAGS + ["-Z", "concrete-playback"]
    if features:
        base += ["--features", features]
    if solver:
        base += ["--solver", solver]
    if c_lib:
        base += ["-Z", "c-ffi", "--c-lib", os.path.join(VERIF, c_lib)]
    before = {}
    srcdir = ws.path(crate + "/src")
    for root, _, files in os.walk(srcdir):
        for f in files:
            if f.startswith("verif_") and f.endswith(".rs"):
                p = os.path.join(root, f)
                before[p] = open(p).read()
    with TargetLock("kani-" + crate, ws) as target:
        hsel = ["--exact", "--harness", modpath + "::" + harness] if modpath else ["--harness", harness]
        rc, out, to, _ = run(base + ["--concrete-playback=inplace"] + hsel + ["--target-dir", target],
                             cwd=ws.ws, timeout=timeout)
        tests = []
        for p, old in before.items():
            new = open(p).read()
            if new != old:
                for m in re.finditer(
                        r"((?:///[^\n]*\n)*)\s*#\[test\]\s*\nfn (kani_concrete_playback_\w+)\(\) \{.*?\n\}\n",
                        new, re.S):
                    if m.group(2) not in old:
                        mc = re.search(r"Check for `(\w+)`: \"?([^\n\"]*)", m.group(1))
                        tests.append({"file": os.path.relpath(p, ws.ws), "name": m.group(2), "text": m.group(0).lstrip(),
                                      "check_kind": mc.group(1) if mc else None, "check": mc.group(2) if mc else None})
        # keep only the tests generated for failing checks (Kani also emits one per cover property)
        fail_tests = [t for t in tests if t["check_kind"] != "cover"] or tests
        if not fail_tests:
            return {"tests": [], "native_failed": None, "native_output": out[-3000:], "timed_out": to}
        if not run_native:
            return {"tests": fail_tests, "native_failed": None, "timed_out": to,
                    "native_output": "not executed natively: the harness stubs part of the environment (kani::stub), "
                                     "which `cargo kani playback` does not apply"}
        pb = ["cargo", "kani", "playback", "-Z", "concrete-playback", "-p", crate]
        if features:
            pb += ["--features", features]
        pb += ["--lib", "--", "kani_concrete_playback_"]
        rc2, out2, to2, _ = run(pb, cwd=ws.ws, timeout=timeout,
                                env={"CARGO_TARGET_DIR": os.path.join(target, "playback")})
    native_failed = None
    m = re.search(r"test result: (\w+)\. (\d+) passed; (\d+) failed", out2)
    if m:
        # every generated test (one per failed check) is executed; a failure of any of the tests
        # generated for failing checks reproduces the violation on the natively compiled code
        failed_names = re.findall(r"test \S*?(kani_concrete_playback_\w+) \.\.\. FAILED", out2)
        native_failed = any(t["name"] in failed_names for t in fail_tests)
        fail_tests = sorted(fail_tests, key=lambda t: t["name"] not in failed_names)
    return {"tests": fail_tests, "native_failed": native_failed, "native_output": out2[-4000:],
            "timed_out": to or to2}


def native_search(ws, crate, test, features=None, targets=(), replay_input=None, seed=0, timeout=900, target_sel=("--lib",), release=False):
    """Run the native failing-input search (or the replay of one stored input) woven under
    cfg(verif_search).  Returns dict(found={obligation: input_line}, output, evaluations)."""
    cmd = ["cargo", "test", "--offline", "-p", crate] + list(target_sel)
    if release:
        cmd += ["--release"]
    if features:
        cmd += ["--features", features]
    cmd += [test, "--", "--nocapture", "--test-threads", "1"]
    env = {"RUSTFLAGS": "--cfg verif_search", "VERIF_SEARCH_TARGETS": ",".join(targets), "VERIF_SEED": str(seed)}
    if replay_input is not None:
        env["VERIF_REPLAY"] = replay_input
    with TargetLock("native-" + crate, ws) as target:
        env["CARGO_TARGET_DIR"] = target
        rc, out, to, secs = run(cmd, cwd=ws.ws, timeout=timeout, env=env)
    found = {}
    for m in re.finditer(r"VERIF-FOUND obligation=(\S+) input: (.*)", out):
        found.setdefault(m.group(1), m.group(2).strip())
    m = re.search(r"VERIF-SEARCH evaluations=(\d+)", out)
    ran = ("VERIF-SEARCH" in out) or ("VERIF-REPLAY" in out)
    return {"found": found, "output": out[-4000:], "evaluations": int(m.group(1)) if m else None,
            "ran": ran, "timed_out": to, "wall_s": round(secs, 2), "cmd": " ".join(cmd)}


def classify_failed_check(desc):
    for pat in UNDECIDED_PATTERNS:
        if re.search(pat, desc, re.I):
            return "undecided"
    return "violation"


# --------------------------------------------------------------------------------------------
# Verus driver
# --------------------------------------------------------------------------------------------
def verus_run(path, rlimit=60, timeout=600, extra=()):
    cmd = ["verus", path, "--output-json", "--time", "--rlimit", str(rlimit)] + list(extra)
    rc, out, to, secs = run(cmd, cwd=os.path.dirname(path), timeout=timeout)
    js = None
    # the JSON document is the last top-level {...} block on stdout
    i = out.find("\n{")
    if out.startswith("{"):
        i = -1
    try:
        dec = json.JSONDecoder()
        start = 0 if out.startswith("{") else out.index("\n{") + 1
        js, _ = dec.raw_decode(out[start:])
    except Exception:
        js = None
    return {"rc": rc, "out": out, "json": js, "timed_out": to, "wall_s": round(secs, 2),
            "cmd": " ".join(cmd)}


# --------------------------------------------------------------------------------------------
# known findings
# --------------------------------------------------------------------------------------------
def load_known_findings():
    """known_findings.txt lines:
         known: property=<id> obligation=<name> <what fails>
         fixed: property=<id> <commit> <what failed>        (suppresses nothing)
    """
    known = []
    p = os.path.join(VERIF, "known_findings.txt")
    if os.path.exists(p):
        for line in open(p):
            line = line.strip()
            m = re.match(r"known:\s+property=(\S+)\s+obligation=(\S+)\s+(.*)", line)
            if m:
                known.append({"property": m.group(1), "obligation": m.group(2), "what": m.group(3)})
    return known


# --------------------------------------------------------------------------------------------
# evidence
# --------------------------------------------------------------------------------------------
def tool_versions():
    v = {}
    for name, cmd in (("kani", ["cargo", "kani", "--version"]), ("verus", ["verus", "--version"]),
                      ("cbmc", ["cbmc", "--version"]), ("z3", ["z3", "--version"])):
        try:
            rc, out, _, _ = run(cmd, timeout=30)
            v[name] = " ".join(out.split())[:120]
        except Exception as e:  # pragma: no cover
            v[name] = f"unavailable: {e}"
    return v


def write_evidence(prop, tier, seed, obligations, assumptions, trusted_base, functions, checker_cmds,
                   samples, wall_s, violations, extra=None, undecided=()):
    # the same harness may serve several groups of one property: count each (obligation, harness) once,
    # keeping the worst result
    rank = {"failed": 0, "known-finding": 1, "undecided": 2, "discharged": 3}
    uniq = {}
    for o in obligations:
        k = (o["name"], o.get("harness"), o.get("engine"))
        if k not in uniq or rank.get(o["result"], 2) < rank.get(uniq[k]["result"], 2):
            uniq[k] = o
    obligations = list(uniq.values())
    # bounded stand-ins are reported but never counted as obligations discharged by proof
    bounded_obls = [o for o in obligations if o.get("completeness", "complete") != "complete"]
    obligations = [o for o in obligations if o.get("completeness", "complete") == "complete"]
    total = len(obligations)
    discharged = sum(1 for o in obligations if o["result"] == "discharged")
    proof_ok = total > 0 and discharged == total
    bounded = bounded_obls
    cov = {
        "obligations": total,
        "discharged": discharged,
        "checker_cmd": " ; ".join(checker_cmds) or "none",
        "trusted_base": trusted_base,
        "samples": samples[:8] if samples else [o for o in obligations[:3]],
        "functions_under_contract": functions,
        "per_obligation": obligations,
        "bounded_not_counted_as_proved": bounded,
        "undecided": list(undecided),
        "solver_time_s": round(sum((o.get("solver_s") or 0) for o in obligations), 2),
        "exhaustive": False,
    }
    if not proof_ok:
        cov["explanation"] = (
            f"{discharged} of {total} obligations discharged on this run; the rest failed or are "
            "undecided (see per_obligation / undecided), so no proof-level claim is made by this run.")
    if extra:
        cov.update(extra)
    ev = {
        "property_id": prop, "tier": tier, "seed": seed,
        "level": "proof" if proof_ok else "other",
        "coverage": cov, "assumptions": assumptions, "wall_s": round(wall_s, 2),
        "violations": violations,
    }
    evdir = os.environ.get("VERIF_EVIDENCE_DIR", os.path.join(VERIF, "evidence"))
    os.makedirs(evdir, exist_ok=True)
    with open(os.path.join(evdir, f"{prop}.json"), "w") as f:
        json.dump(ev, f, indent=1)
    return ev
