#!/bin/bash
# usage: mutant_try.sh <file-rel-to-repo> <python-expr old> <new> -- <prop>...   (scratch helper: applies, runs, reverts)
f="$1"; old="$2"; new="$3"; shift 3; shift
python3 - "$f" "$old" "$new" <<'PY'
import sys
p='/repo/'+sys.argv[1]; s=open(p).read()
old=sys.argv[2].encode().decode('unicode_escape'); new=sys.argv[3].encode().decode('unicode_escape')
assert s.count(old)==1, ('anchor count', s.count(old))
open(p,'w').write(s.replace(old,new))
PY
[ $? -eq 0 ] || { echo "mutation not applied"; exit 9; }
for p in "$@"; do /verif/check $p 2>&1 | grep -v "^  " ; echo "rc[$p]=${PIPESTATUS[0]}"; done
git -C /repo checkout -- .
