#!/usr/bin/env python3
"""Development helper: weave one native stand-in unit into a scratch copy (VERIF_REPO honoured) and run its test.
usage: native_dev.py <unit> <crate> <test>   (REPLAY=<input line> to replay one input)"""
import sys, os
sys.path.insert(0, '/verif/tools')
import vlib, check, registry
unit, crate, test = sys.argv[1:4]
ws = vlib.Workspace("ndev")
try:
    check.weave_units(ws, [unit])
    sr = vlib.native_search(ws, crate, test, features=None, targets=(), seed=1, replay_input=os.environ.get("REPLAY"))
    print(sr["output"][-3000:])
    print({k: sr[k] for k in ("found", "evaluations", "ran", "wall_s")})
finally:
    ws.cleanup()
