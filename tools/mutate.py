#!/usr/bin/env python3
"""Systematic syntactic mutants of the functions the properties are anchored in (a cheap complement to
the sub-agent seeds): used only to look for weak contracts.  Not part of any registered check.

  mutate.py list                      -> /tmp/mutants/mutants.json
  mutate.py apply <id> <repo-dir>     -> apply mutant <id> to a checkout
"""
import json
import os
import re
import sys

REPO = "/repo"
FILES = {
    "clock-bound-shm/src/lib.rs": ["C05", "C06", "C14", "C12"],
    "clock-bound-shm/src/common.rs": ["C12"],
    "clock-bound-shm/src/reader.rs": ["C03", "C16", "C18", "C04"],
    "clock-bound-shm/src/writer.rs": ["C11", "C04", "C16"],
    "clock-bound-shm/src/shm_header.rs": ["C16"],
    "clock-bound-d/src/shm_writer.rs": ["C07", "C08", "C09", "C10"],
    "clock-bound-d/src/shm_writer/clock_state_fsm.rs": ["C08"],
    "clock-bound-d/src/chrony_poller.rs": ["C13", "C12"],
    "clock-bound-d/src/lib.rs": ["C10"],
    "clock-bound-d/src/main.rs": ["C19"],
    "clock-bound-ffi/src/lib.rs": ["C17"],
    "clock-bound-client/src/lib.rs": ["C17"],
}

REL = [("<=", "<"), (">=", ">"), ("==", "!="), ("!=", "=="), ("<", "<="), (">", ">=")]


def code_part(line):
    """strip // comments (not inside strings, roughly)"""
    i = line.find("//")
    return line if i < 0 else line[:i]


def gen():
    out = []
    for rel, props in FILES.items():
        src = open(os.path.join(REPO, rel)).read().split("\n")
        in_tests = False
        for ln, line in enumerate(src):
            if re.match(r"\s*#\[cfg\(test\)\]", line):
                in_tests = True
            if in_tests:
                continue
            code = code_part(line)
            s = code.strip()
            if not s or s.startswith("#") or s.startswith("use ") or s.startswith("///") or s.startswith("pub mod") or s.startswith("mod "):
                continue
            if "debug!" in s or "error!" in s or "info!" in s or "warn!" in s or s.startswith('"'):
                continue

            def add(col, old, new, kind):
                out.append({"file": rel, "line": ln, "col": col, "old": old, "new": new, "kind": kind, "props": props,
                            "text": line.strip()[:120]})
            # relational operators
            for m in re.finditer(r"(?<![<>=!\-])(<=|>=|==|!=|<|>)(?![<>=])", code):
                op = m.group(1)
                pre = code[:m.start()]
                # skip generics / arrows / turbofish / shifts
                if op in ("<", ">") and (re.search(r"[A-Za-z_:&]$", pre.rstrip()) and re.search(r"::\s*$|[A-Z][A-Za-z0-9_]*$|\bfn\b|impl|Result|Option|Box|Vec|mut$|const$", pre.rstrip()[-30:])):
                    continue
                if op == ">" and pre.rstrip().endswith(("-", "=")):
                    continue
                if "->" in code and op in ("<", ">") and m.start() > code.find("->"):
                    continue
                if re.search(r"\b(fn|impl|struct|enum|type|where|trait)\b", code) and op in ("<", ">"):
                    continue
                for a, b in REL:
                    if a == op:
                        add(m.start(), op, b, "rel")
                        break
            # arithmetic
            for m in re.finditer(r"(?<=[\w\)\]] )(\+|-|\*|/)(?= [\w\(])", code):
                op = m.group(1)
                add(m.start(), op, {"+": "-", "-": "+", "*": "/", "/": "*"}[op], "arith")
            for m in re.finditer(r"(\+=|-=)", code):
                add(m.start(), m.group(1), "-=" if m.group(1) == "+=" else "+=", "arith")
            # logical
            for m in re.finditer(r"(&&|\|\|)", code):
                add(m.start(), m.group(1), "||" if m.group(1) == "&&" else "&&", "logic")
            # integer literals (not in attribute / type positions)
            for m in re.finditer(r"(?<![\w.])(\d[\d_]*)(?![\w.])", code):
                lit = m.group(1)
                if lit in ("0", "1") and ("[" in code[max(0, m.start() - 1):m.start()]):
                    continue
                val = int(lit.replace("_", ""))
                add(m.start(), lit, str(val + 1), "const")
            # boolean literals
            for m in re.finditer(r"\b(true|false)\b", code):
                add(m.start(), m.group(1), "false" if m.group(1) == "true" else "true", "bool")
            # statement deletion: simple assignments / calls on their own line
            if re.match(r"^\s*(self\.[a-z_\.]+ = .*;|[a-z_]+ (\+|-)?= .*;|[a-z_\.]+\.store\(.*\);|self\.[a-z_]+\.[a-z_]+\(.*\);)\s*$", code) \
                    and not s.startswith("let "):
                add(0, "__STMT__", "", "delete")
    for i, m in enumerate(out):
        m["id"] = i
    return out


def apply(m, repo):
    p = os.path.join(repo, m["file"])
    src = open(p).read().split("\n")
    line = src[m["line"]]
    if m["kind"] == "delete":
        indent = re.match(r"\s*", line).group(0)
        src[m["line"]] = indent + "// (statement removed)"
    else:
        assert line[m["col"]:m["col"] + len(m["old"])] == m["old"], (line, m)
        src[m["line"]] = line[:m["col"]] + m["new"] + line[m["col"] + len(m["old"]):]
    open(p, "w").write("\n".join(src))


if __name__ == "__main__":
    if sys.argv[1] == "list":
        ms = gen()
        os.makedirs("/tmp/mutants", exist_ok=True)
        json.dump(ms, open("/tmp/mutants/mutants.json", "w"), indent=0)
        from collections import Counter
        print(len(ms), Counter(m["kind"] for m in ms), Counter(m["file"] for m in ms))
    elif sys.argv[1] == "apply":
        ms = json.load(open("/tmp/mutants/mutants.json"))
        apply(ms[int(sys.argv[2])], sys.argv[3])
